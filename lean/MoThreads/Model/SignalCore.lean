/-
  M1 — SignalCore: one `mo_threads.signals.Signal`, any number of threads, at the granularity of
  single shared accesses (reads/writes of `_go`, `job_queue`, `waiting_threads`, lock operations).

  Anchors (mo_threads/signals.py):
    Signal.__bool__ 69-70, wait 76-106, go 108-144, then 146-172, remove_then 174-186, Never.go 307-309.

  A thread's program counter says which visible operation it performs NEXT; `step s t` performs it.
  Callbacks are registration ids `k`; `raises k` says whether callback `k` raises.  No imports.
-/
import MoThreads.Model.Sched
namespace MoThreads.SignalCore

/-- what the last finished call returned -/
inductive Ret
  | none | waitTrue | goSelf | boolV (b : Bool) | thenSelf | removeNone
  deriving DecidableEq, Repr

inductive PC
  | idle (r : Ret)
  -- wait()
  | w0                      -- :84  R _go (unlocked fast path)
  | w1                      -- :93  acquire self.lock
  | w2                      -- :94  R _go (locked re-test)
  | w2r                     -- :95  release, return True
  | w3                      -- :96-97 allocate stopper, stopper.acquire()
  | w4 (x : Nat)            -- :98  R waiting_threads (truth test)
  | w5n (x : Nat)           -- :99  W waiting_threads := [x]
  | w5a (x : Nat)           -- :101 R waiting_threads ; append x
  | w6 (x : Nat)            -- with-exit: release self.lock
  | w7 (x : Nat)            -- :104 stopper.acquire()  (parks until released)
  -- go()
  | g0                      -- :114 R _go
  | g1                      -- :117 acquire
  | g2                      -- :118 R _go (locked re-test)
  | g2r                     -- :119 release, return
  | g3                      -- :122 W _go := True
  | g4                      -- with-exit: release
  | g5                      -- :125 R job_queue
  | g6 (js : List Nat)      -- :125 W job_queue := None
  | g7 (js : List Nat)      -- :126 R waiting_threads
  | g8 (js ws : List Nat)   -- :126 W waiting_threads := None
  | g9 (js ws : List Nat)   -- :135-136 release head of ws
  | g10 (js : List Nat)     -- :139-141 run head of js
  | g11 (k : Nat) (js : List Nat) -- :142-143 error handler of k
  -- then(k)
  | t1 (k : Nat)            -- :157 acquire
  | t2 (k : Nat)            -- :158 R _go
  | t3 (k : Nat)            -- :162 R job_queue (truth test)
  | t4n (k : Nat)           -- :163 W job_queue := [k]
  | t4a (k : Nat)           -- :165 R job_queue ; append k
  | t5 (k : Nat)            -- :166 release, return self (registered)
  | t6 (k : Nat)            -- with-exit: release (flag was true)
  | t7 (k : Nat)            -- :169 run target
  | t8 (k : Nat)            -- :171 error handler
  -- remove_then(k)
  | r0 (k : Nat)            -- :178 R _go
  | r1 (k : Nat)            -- :181 acquire
  | r2 (k : Nat)            -- :182 R _go
  | r3 (k : Nat)            -- :182 R job_queue (truth test)
  | r4 (k : Nat)            -- :183 R job_queue (enumerate)
  | r5 (k : Nat)            -- :185 R job_queue ; del [i]
  | r6                      -- with-exit: release
  -- bool()
  | b0                      -- :70 R _go
  deriving DecidableEq, Repr

/-- ghost: where a `then()` registration currently lives -/
inductive Loc
  | unborn | inThen (t : Nat) | queued | detached | erring (t : Nat) | done | removed
  deriving DecidableEq, Repr

def Loc.hasRun : Loc → Bool
  | .erring _ => true
  | .done => true
  | _ => false

/-- pcs of the post-publish region of go() -/
def PC.isWinner : PC → Bool
  | .g4 | .g5 | .g6 _ | .g7 _ | .g8 _ _ | .g9 _ _ | .g10 _ | .g11 _ _ => true
  | _ => false

inductive Label
  | rGo (b : Bool) | wGo | acq | rel | acqS (x : Nat) | relS (x : Nat)
  | rJobs (v : Option (List Nat)) | wJobs (v : Option (List Nat))
  | rWait (v : Option (List Nat)) | wWait (v : Option (List Nat))
  | cb (k : Nat) | err (k : Nat)
  deriving DecidableEq, Repr

inductive Op
  | wait | go | bool | then_ | remove (k : Nat)
  deriving DecidableEq, Repr

structure State where
  never : Bool                    -- the `Never` subclass: go() does nothing
  raises : Nat → Bool             -- which callbacks raise (arbitrary)
  go : Bool                       -- _go
  lock : Option Nat               -- self.lock owner
  jobs : Option (List Nat)        -- job_queue
  waiting : Option (List Nat)     -- waiting_threads (stopper ids)
  unlocked : Nat → Bool           -- stopper x has been released
  nextSid : Nat
  nextK : Nat
  pc : Nat → PC
  ran : Nat → Nat                 -- ghost: how often callback k ran
  errs : Nat → Nat                -- ghost: how often k's error handler ran
  removed : Nat → Bool            -- ghost: remove_then deleted k from the list (flag was false)
  winner : Option Nat             -- ghost: the thread whose go() published the flag and has not returned yet
  loc : Nat → Loc                 -- ghost: where registration k currently is

def State.setPc (s : State) (t : Nat) (p : PC) : State :=
  { s with pc := fun u => if u = t then p else s.pc u }

/-- set the pc of the publishing thread and keep the `winner` ghost in step -/
def State.setPcG (s : State) (t : Nat) (p : PC) : State :=
  { s.setPc t p with winner := if p.isWinner then some t else none }

def init (never : Bool) (raises : Nat → Bool) : State :=
  { never, raises, go := false, lock := none, jobs := none, waiting := none,
    unlocked := fun _ => false, nextSid := 0, nextK := 0, pc := fun _ => .idle .none,
    ran := fun _ => 0, errs := fun _ => 0, removed := fun _ => false,
    winner := none, loc := fun _ => .unborn }

/-- Python truthiness of `None`/list -/
def truthy : Option (List Nat) → Bool
  | none => false
  | some [] => false
  | some _ => true

def lst : Option (List Nat) → List Nat
  | none => []
  | some l => l

/-- after the jobs loop element: next job or return -/
def afterJob (js : List Nat) : PC := if js = [] then .idle .goSelf else .g10 js
/-- after the stopper loop: jobs or return -/
def afterStoppers (js ws : List Nat) : PC := if ws = [] then afterJob js else .g9 js ws

/-- The environment starts a call on an idle thread. `then_` takes the next fresh registration id. -/
def call (s : State) (t : Nat) (op : Op) : Option State :=
  match s.pc t with
  | .idle _ =>
    match op with
    | .wait => some (s.setPc t .w0)
    | .go => if s.never then some (s.setPc t (.idle .goSelf)) else some (s.setPc t .g0)
    | .bool => some (s.setPc t .b0)
    | .then_ => some ({ s with nextK := s.nextK + 1,
                                loc := fun j => if j = s.nextK then .inThen t else s.loc j }.setPc t (.t1 s.nextK))
    | .remove k => some (s.setPc t (.r0 k))
  | _ => none

def step (s : State) (t : Nat) : Option (State × Label) :=
  match s.pc t with
  | .idle _ => none
  -- wait
  | .w0 => some (s.setPc t (if s.go then .idle .waitTrue else .w1), .rGo s.go)
  | .w1 => if s.lock = none then some ({ s with lock := some t }.setPc t .w2, .acq) else none
  | .w2 => some (s.setPc t (if s.go then .w2r else .w3), .rGo s.go)
  | .w2r => some ({ s with lock := none }.setPc t (.idle .waitTrue), .rel)
  | .w3 => some ({ s with nextSid := s.nextSid + 1 }.setPc t (.w4 s.nextSid), .acqS s.nextSid)
  | .w4 x => some (s.setPc t (if truthy s.waiting then .w5a x else .w5n x), .rWait s.waiting)
  | .w5n x => some ({ s with waiting := some [x] }.setPc t (.w6 x), .wWait (some [x]))
  | .w5a x => some ({ s with waiting := some (lst s.waiting ++ [x]) }.setPc t (.w6 x), .rWait s.waiting)
  | .w6 x => some ({ s with lock := none }.setPc t (.w7 x), .rel)
  | .w7 x => if s.unlocked x then some (s.setPc t (.idle .waitTrue), .acqS x) else none
  -- go
  | .g0 => some (s.setPc t (if s.go then .idle .goSelf else .g1), .rGo s.go)
  | .g1 => if s.lock = none then some ({ s with lock := some t }.setPc t .g2, .acq) else none
  | .g2 => some (s.setPc t (if s.go then .g2r else .g3), .rGo s.go)
  | .g2r => some ({ s with lock := none }.setPc t (.idle .goSelf), .rel)
  | .g3 => some ({ s with go := true }.setPcG t .g4, .wGo)
  | .g4 => some ({ s with lock := none }.setPc t .g5, .rel)
  | .g5 => some (s.setPc t (.g6 (lst s.jobs)), .rJobs s.jobs)
  | .g6 js => some ({ s with jobs := none, loc := fun j => if j ∈ js then .detached else s.loc j }.setPc t (.g7 js), .wJobs none)
  | .g7 js => some (s.setPc t (.g8 js (lst s.waiting)), .rWait s.waiting)
  | .g8 js ws => some ({ s with waiting := none }.setPcG t (afterStoppers js ws), .wWait none)
  | .g9 js ws =>
    match ws with
    | [] => none      -- unreachable (afterStoppers never yields g9 _ [])
    | x :: ws' =>
      some ({ s with unlocked := fun y => if y = x then true else s.unlocked y }.setPcG t (afterStoppers js ws'), .relS x)
  | .g10 js =>
    match js with
    | [] => none      -- unreachable
    | k :: js' =>
      some ({ s with ran := fun j => if j = k then s.ran j + 1 else s.ran j,
                     loc := fun j => if j = k then (if s.raises k then .erring t else .done) else s.loc j }.setPcG t
              (if s.raises k then .g11 k js' else afterJob js'), .cb k)
  | .g11 k js =>
    some ({ s with errs := fun j => if j = k then s.errs j + 1 else s.errs j,
                   loc := fun j => if j = k then .done else s.loc j }.setPcG t (afterJob js), .err k)
  -- then
  | .t1 k => if s.lock = none then some ({ s with lock := some t }.setPc t (.t2 k), .acq) else none
  | .t2 k => some (s.setPc t (if s.go then .t6 k else .t3 k), .rGo s.go)
  | .t3 k => some (s.setPc t (if truthy s.jobs then .t4a k else .t4n k), .rJobs s.jobs)
  | .t4n k => some ({ s with jobs := some [k], loc := fun j => if j = k then .queued else s.loc j }.setPc t (.t5 k), .wJobs (some [k]))
  | .t4a k => some ({ s with jobs := some (lst s.jobs ++ [k]), loc := fun j => if j = k then .queued else s.loc j }.setPc t (.t5 k), .rJobs s.jobs)
  | .t5 _ => some ({ s with lock := none }.setPc t (.idle .thenSelf), .rel)
  | .t6 k => some ({ s with lock := none }.setPc t (.t7 k), .rel)
  | .t7 k =>
    some ({ s with ran := fun j => if j = k then s.ran j + 1 else s.ran j,
                   loc := fun j => if j = k then (if s.raises k then .erring t else .done) else s.loc j }.setPc t
            (if s.raises k then .t8 k else .idle .thenSelf), .cb k)
  | .t8 k =>
    some ({ s with errs := fun j => if j = k then s.errs j + 1 else s.errs j,
                   loc := fun j => if j = k then .done else s.loc j }.setPc t (.idle .thenSelf), .err k)
  -- remove_then
  | .r0 k => some (s.setPc t (if s.go then .idle .removeNone else .r1 k), .rGo s.go)
  | .r1 k => if s.lock = none then some ({ s with lock := some t }.setPc t (.r2 k), .acq) else none
  | .r2 k => some (s.setPc t (if s.go then .r6 else .r3 k), .rGo s.go)
  | .r3 k => some (s.setPc t (if truthy s.jobs then .r4 k else .r6), .rJobs s.jobs)
  | .r4 k => some (s.setPc t (if k ∈ lst s.jobs then .r5 k else .r6), .rJobs s.jobs)
  | .r5 k =>
    some ({ s with jobs := some ((lst s.jobs).erase k),
                   removed := fun j => if j = k then true else s.removed j,
                   loc := fun j => if j = k then .removed else s.loc j }.setPc t .r6, .rJobs s.jobs)
  | .r6 => some ({ s with lock := none }.setPc t (.idle .removeNone), .rel)
  -- bool
  | .b0 => some (s.setPc t (.idle (.boolV s.go)), .rGo s.go)

/-- The transition system: any variant, any `raises`; environment = API calls on idle threads. -/
def sys : Sys State Label where
  init s := ∃ nv rs, s = init nv rs
  env s s' := ∃ t op, call s t op = some s'
  step := step

end MoThreads.SignalCore
