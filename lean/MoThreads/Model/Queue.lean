/-
  M4 — Queue: `mo_threads.queues.Queue` (queues.py: add 64-87, push 89-96, extend 114-131,
  _wait_for_queue_space 133-161, __len__ 163, pop 171-192, pop_all 194-202, pop_one 204-218, close 220).

  Granularity: acquire/release of the queue's mutex, every truth test of `closed` and of the caller's
  `till` made by a Queue method, every length test and every mutation of the deque, parking in
  `lock.wait()` and the value it returns.  The Lock's baton is abstracted: `signalled t` is set by the
  environment at any time (any wake-up policy, even spurious), so the safety theorems do not depend
  on the notification discipline (that is C06).  Values are `Nat`.  unique = False.
  Both modes of `_wait_for_queue_space`: a silent queue parks on the caller's till; a queue that is not
  silent (the default) parks on a FRESH 5 s stall timer every turn of the loop (`stalled t`, fired by the
  environment, reset when the producer parks again), then re-tests its till and the length for the
  "queue is full" alert and goes back to the loop head.
-/
import MoThreads.Model.Sched
namespace MoThreads.Queue

inductive Res
  | none                      -- nothing returned yet / python None
  | ok | timeout | closedErr
  | val (v : Nat) | stop | nothing   -- pop results: value, PLEASE_STOP, None
  | vals (l : List Nat) | num (n : Nat)
  deriving DecidableEq, Repr

/-- what the caller does once there is room -/
inductive Act
  | add (v : Nat) | push (v : Nat) | extend (vs : List Nat)
  deriving DecidableEq, Repr

inductive PC
  | idle (r : Res)
  -- add / push / extend
  | sAcq (a : Act) (tl : Option Nat) (force : Bool)   -- with self.lock
  | sC (a : Act) (tl : Option Nat)                    -- :143 `not self.closed`
  | sLen (a : Act) (tl : Option Nat)                  -- :143 `len(self.queue) >= self.max`
  | sTill (a : Act) (x : Nat)                         -- :144 `if till:`
  | sPark (a : Act) (tl : Option Nat)                 -- :148 self.lock.wait(till)
  | sRel2 (a : Act) (tl : Option Nat)                 --      … releases the mutex
  | sParked (a : Act) (tl : Option Nat)               --      … parked, then re-acquires
  | sWoke (a : Act) (tl : Option Nat)                 --      … wait() returned
  | sAlertT (a : Act) (x : Nat)                       -- :150 `if not till` (not silent)
  | sAlertLen (a : Act) (tl : Option Nat)             -- :150 `len(self.queue) >= self.max`
  | sAlertNum (a : Act) (tl : Option Nat)             -- :152-157 logger.alert(…, num=len(self.queue), …)
  | sPost (a : Act)                                   -- :160 `if self.closed and not allow_add_after_close`
  | sAct (a : Act) (checked : Bool)                   -- append / appendleft / extend loop
  | sRel (r : Res)                                    -- leaving the with block
  -- pop(till)
  | pAcq (tl : Option Nat)
  | pLen (tl : Option Nat)                            -- :181 `if self.queue`
  | pPop                                              -- :182 popleft
  | pC (tl : Option Nat)                              -- :183 `if self.closed`
  | pPark (tl : Option Nat)                           -- :185 self.lock.wait(till=self.closed | till)
  | pRel2 (tl : Option Nat)
  | pParked (tl : Option Nat)
  | pWoke (tl : Option Nat)
  | pT (tl : Option Nat)                              -- :186 `if self.closed` after a timed-out wait
  -- pop_one
  | oAcq | oC | oLen | oPop
  -- pop_all
  | lAcq | lLen | lClear
  -- __len__
  | nAcq | nLen
  -- close()
  | cClose
  -- add(PLEASE_STOP)
  | kAcq | kClose
  deriving DecidableEq, Repr

inductive Label
  | acq | rel | park | woke (r : Bool)
  | closedR (b : Bool) | tillR (x : Nat) (b : Bool) | lenR (n : Nat)
  | append (v : Nat) | appendleft (v : Nat) | popleft (v : Nat) | clear (l : List Nat)
  | close
  deriving DecidableEq, Repr

inductive Op
  | add (v : Nat) (tl : Option Nat) (force : Bool) | push (v : Nat) | extend (vs : List Nat)
  | pop (tl : Option Nat) | popOne | popAll | len | close | addStop
  deriving DecidableEq, Repr

structure State where
  max : Nat
  allow : Bool                     -- allow_add_after_close
  silent : Bool
  dq0 : List Nat                   -- initial contents
  dq : List Nat                    -- the deque, head first
  closed : Bool
  mutex : Option Nat
  tillFired : Nat → Bool
  signalled : Nat → Bool           -- thread t's waiter has been signalled (environment: any policy)
  stalled : Nat → Bool             -- the stall timer of producer t's current wait has fired (not silent)
  pc : Nat → PC
  -- ghosts: linearised history
  added : List Nat                 -- values appended at the back, in order
  pushed : List Nat                -- values sneaked to the front
  removed : List Nat               -- values taken out (popleft / clear), in order

def State.setPc (s : State) (t : Nat) (p : PC) : State :=
  { s with pc := fun u => if u = t then p else s.pc u }

def init (max : Nat) (allow : Bool) (silent : Bool) (dq0 : List Nat) : State :=
  { max, allow, silent, dq0, dq := dq0, closed := false, mutex := none, tillFired := fun _ => false,
    signalled := fun _ => false, stalled := fun _ => false, pc := fun _ => .idle .none, added := [], pushed := [], removed := [] }

def tillOn (s : State) (tl : Option Nat) : Bool :=
  match tl with
  | none => false
  | some x => s.tillFired x

def call (s : State) (t : Nat) (op : Op) : Option State :=
  match s.pc t with
  | .idle _ =>
    match op with
    | .add v tl f => some (s.setPc t (.sAcq (.add v) tl f))
    | .push v => some (s.setPc t (.sAcq (.push v) none false))
    | .extend vs => some (s.setPc t (.sAcq (.extend vs) none false))
    | .pop tl => some (s.setPc t (.pAcq tl))
    | .popOne => some (s.setPc t .oAcq)
    | .popAll => some (s.setPc t .lAcq)
    | .len => some (s.setPc t .nAcq)
    | .close => some (s.setPc t .cClose)
    | .addStop => some (s.setPc t .kAcq)
  | _ => none

def fireTill (s : State) (x : Nat) : State := { s with tillFired := fun y => if y = x then true else s.tillFired y }
def signal (s : State) (t : Nat) : State := { s with signalled := fun u => if u = t then true else s.signalled u }
/-- the stall timer of producer `t` fires -/
def stall (s : State) (t : Nat) : State := { s with stalled := fun u => if u = t then true else s.stalled u }
/-- close() issued from outside the modelled threads -/
def envClose (s : State) : State := { s with closed := true }

def acquire (s : State) (t : Nat) (p : PC) : Option (State × Label) :=
  if s.mutex = none then some ({ s with mutex := some t }.setPc t p, .acq) else none

def step (s : State) (t : Nat) : Option (State × Label) :=
  match s.pc t with
  | .idle _ => none
  | .sAcq a tl force => acquire s t (if force then .sAct a false else .sC a tl)
  | .sC a tl => some (s.setPc t (if s.closed then .sPost a else .sLen a tl), .closedR s.closed)
  | .sLen a tl =>
    some (s.setPc t (if s.max ≤ s.dq.length then (match tl with | some x => .sTill a x | none => .sPark a tl) else .sPost a),
          .lenR s.dq.length)
  | .sTill a x => some (s.setPc t (if s.tillFired x then .sRel .timeout else .sPark a (some x)), .tillR x (s.tillFired x))
  | .sPark a tl => some ({ s with stalled := fun u => if u = t then false else s.stalled u }.setPc t (.sRel2 a tl), .park)   -- a fresh stall timer
  | .sRel2 a tl => some ({ s with mutex := none }.setPc t (.sParked a tl), .rel)
  | .sParked a tl =>
    if (s.signalled t || (if s.silent then tillOn s tl else s.stalled t)) && s.mutex = none then
      some ({ s with mutex := some t }.setPc t (.sWoke a tl), .acq)
    else none
  | .sWoke a tl =>
    some ({ s with signalled := fun u => if u = t then false else s.signalled u }.setPc t
            (if s.silent then .sC a tl else (match tl with | some x => .sAlertT a x | none => .sAlertLen a none)), .woke (s.signalled t))
  | .sAlertT a x => some (s.setPc t (if s.tillFired x then .sC a (some x) else .sAlertLen a (some x)), .tillR x (s.tillFired x))
  | .sAlertLen a tl => some (s.setPc t (if s.max ≤ s.dq.length then .sAlertNum a tl else .sC a tl), .lenR s.dq.length)
  | .sAlertNum a tl => some (s.setPc t (.sC a tl), .lenR s.dq.length)
  | .sPost a => some (s.setPc t (if s.closed && !s.allow then .sRel .closedErr else .sAct a true), .closedR s.closed)
  | .sAct a _ =>
    match a with
    | .add v => some ({ s with dq := s.dq ++ [v], added := s.added ++ [v] }.setPc t (.sRel .ok), .append v)
    | .push v => some ({ s with dq := v :: s.dq, pushed := v :: s.pushed }.setPc t (.sRel .ok), .appendleft v)
    | .extend [] => some ({ s with mutex := none }.setPc t (.idle .ok), .rel)
    | .extend (v :: vs) =>
      if v = 0 then     -- the value 0 stands for PLEASE_STOP inside the batch: `self.closed.go(); continue`
        some ({ s with closed := true }.setPc t (.sAct (.extend vs) false), .close)
      else some ({ s with dq := s.dq ++ [v], added := s.added ++ [v] }.setPc t (.sAct (.extend vs) false), .append v)
  | .sRel r => some ({ s with mutex := none }.setPc t (.idle r), .rel)
  -- pop
  | .pAcq tl => acquire s t (.pLen tl)
  | .pLen tl => some (s.setPc t (if s.dq.length = 0 then .pC tl else .pPop), .lenR s.dq.length)
  | .pPop =>
    match s.dq with
    | [] => none
    | v :: rest => some ({ s with dq := rest, removed := s.removed ++ [v] }.setPc t (.sRel (.val v)), .popleft v)
  | .pC tl => some (s.setPc t (if s.closed then .sRel .stop else .pPark tl), .closedR s.closed)
  | .pPark tl => some (s.setPc t (.pRel2 tl), .park)
  | .pRel2 tl => some ({ s with mutex := none }.setPc t (.pParked tl), .rel)
  | .pParked tl =>
    if (s.signalled t || s.closed || tillOn s tl) && s.mutex = none then
      some ({ s with mutex := some t }.setPc t (.pWoke tl), .acq)
    else none
  | .pWoke tl =>
    some ({ s with signalled := fun u => if u = t then false else s.signalled u }.setPc t
            (if s.signalled t then .pLen tl else .pT tl), .woke (s.signalled t))
  | .pT _ => some (s.setPc t (.sRel (if s.closed then .stop else .nothing)), .closedR s.closed)
  -- pop_one
  | .oAcq => acquire s t .oC
  | .oC => some (s.setPc t (if s.closed then .sRel .stop else .oLen), .closedR s.closed)
  | .oLen => some (s.setPc t (if s.dq.length = 0 then .sRel .nothing else .oPop), .lenR s.dq.length)
  | .oPop =>
    match s.dq with
    | [] => none
    | v :: rest => some ({ s with dq := rest, removed := s.removed ++ [v] }.setPc t (.sRel (.val v)), .popleft v)
  -- pop_all
  | .lAcq => acquire s t .lLen
  | .lLen => some (s.setPc t .lClear, .lenR s.dq.length)
  | .lClear => some ({ s with dq := [], removed := s.removed ++ s.dq }.setPc t (.sRel (.vals s.dq)), .clear s.dq)
  -- __len__
  | .nAcq => acquire s t .nLen
  | .nLen => some (s.setPc t (.sRel (.num s.dq.length)), .lenR s.dq.length)
  -- close()
  | .cClose => some ({ s with closed := true }.setPc t (.idle .ok), .close)
  -- add(PLEASE_STOP)
  | .kAcq => acquire s t .kClose
  | .kClose => some ({ s with closed := true }.setPc t (.sRel .ok), .close)

def sys : Sys State Label where
  init s := ∃ m a sl d, s = init m a sl d
  env s s' := (∃ t op, call s t op = some s') ∨ (∃ x, s' = fireTill s x) ∨ (∃ t, s' = signal s t) ∨ (∃ t, s' = stall s t) ∨ s' = envClose s
  step := step

end MoThreads.Queue
