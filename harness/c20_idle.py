"""
C20 on the real code, real OS threads, wall clock: nobody burns CPU while nothing happens.

    PYTHONPATH=/repo:/verif python -m harness.c20_idle

Each window parks some threads on the library's primitives (one waiter per Lock / Queue: two or more on one Lock is the known
finding), lets nothing happen for a while and measures the CPU time the whole process used meanwhile (the timer daemon's
polling every 0.1 s is part of it and costs next to nothing).  A window that uses more than a third of its length is a busy loop.
Prints one JSON object: {"windows": {...cpu seconds...}, "viol": [...]}.
"""
import json
import sys
import threading
import time

WINDOW = 1.5
LIMIT = 0.5


def main():
    import mo_threads
    from mo_threads import Command, Lock, Queue, Signal, Thread, Till, start_main_thread, stop_main_thread
    assert mo_threads.__file__.startswith("/repo"), mo_threads.__file__
    out = {"windows": {}, "viol": []}
    start_main_thread()

    def window(name, what):
        time.sleep(0.2)
        c0, t0 = time.process_time(), time.time()
        time.sleep(WINDOW)
        cpu, wall = time.process_time() - c0, time.time() - t0
        out["windows"][name] = round(cpu, 3)
        if cpu > LIMIT and wall < WINDOW * 2:
            out["viol"].append("C20: %s, nothing happens, and the process burns %.2f s of CPU in %.2f s: somebody is not parked but "
                               "spinning" % (what, cpu, wall))

    # 1. waiters on the primitives themselves
    sig = Signal("never fired")
    lock = Lock("idle")
    q = Queue("idle", max=10, silent=True)
    stop = Signal("test over")

    def on_signal(please_stop):
        sig.wait()

    def on_lock(please_stop):
        with lock:
            while not stop:
                lock.wait()

    def on_queue(please_stop):
        q.pop()
    ts = [Thread.run("sig%d" % i, on_signal) for i in range(3)] + [Thread.run("lock", on_lock), Thread.run("queue", on_queue)]
    window("primitives", "three threads are parked in Signal.wait(), one in Lock.wait(), one in Queue.pop()")
    stop.go()
    sig.go()
    with lock:
        pass
    q.close()
    for t in ts:
        try:
            t.join(till=Till(seconds=5))
        except Exception:   # noqa
            pass

    # 2. the threads the library runs for its callers: after a Command has come and gone its shell is kept for reuse and
    #    the pool's manager thread waits for the next review
    try:
        c = Command("idle", ["echo", "x"], cwd="/tmp", timeout=10)
        c.join(till=Till(seconds=10))
        window("after_command", "a Command has finished, its shell sits in the pool")
    except Exception as e:   # noqa
        out["windows"]["after_command"] = "not run: %s" % str(e)[:80]
    # 3. a Command that is told to stop while its program is silent: its worker thread ends, it does not stay and poll
    try:
        c = Command("stopped", [sys.executable, "-c", "import time; time.sleep(4)"], cwd="/tmp", timeout=10)
        time.sleep(0.5)
        c.stop()
        window("after_stop", "a Command was stopped while its program was silent")
    except Exception as e:   # noqa
        out["windows"]["after_stop"] = "not run: %s" % str(e)[:80]
    print("C20IDLE " + json.dumps(out))
    sys.stdout.flush()
    try:
        stop_main_thread()
    except BaseException:   # noqa
        pass


if __name__ == "__main__":
    main()
