"""C18 plugin: pure-function differential (Lean vs shlex/bash/Command/LifetimeManager) + monitors on real Commands."""
import hashlib
import json

from . import lean_audit
from . import plug

RULE = {
    "C18": "cases = (a) random parameter lists over shell metacharacters, quotes, whitespace, empty strings and non-ASCII, quoted by the "
           "real cmd_escape and split by real bash; (b) real Command objects (python child printing its argv and n lines, exit status "
           "0..255) run concurrently from 3-4 threads on recycled shells in 2 working directories; (c) random get/return op "
           "sequences on the real LifetimeManager with stub shells. Every case is replayed through the Lean functions "
           "(commandLine, shParse, workerParse, Pool.run). distinct = distinct case lines; all are non-trivial inputs by construction",
}


def run_pool(job):
    """the shell pool from several threads under the deterministic scheduler (separate process: it patches mo_threads)"""
    import os
    import subprocess
    from . import detsched as ds
    env = dict(os.environ)
    env["PYTHONPATH"] = ds.REPO + os.pathsep + lean_audit.VERIF
    res = {"evaluations": 0, "transitions": 0, "context_switches": 0, "traces_validated": 0, "shapes": {},
           "distinct": [], "corr_fail": [], "mon_fail": [], "known": [], "samples": [], "extra": {}}
    rp = {"model": "m9-pool", "job": {"seed": job["seed"], "n": job["n"]}}
    p = plug.run_group(["/venv/bin/python", "-m", "harness.m9_pool", str(job["seed"]), str(job["n"])], ds.REPO, env, 300)
    line = [l for l in p.stdout.decode("utf8", "replace").splitlines() if l.startswith("M9POOL ")]
    if not line:
        return {"infra_error": "concurrent pool exploration (seed %d) produced no result" % job["seed"]}
    out = json.loads(line[-1][7:])
    res["evaluations"] = out["cases"]
    res["transitions"] = out["steps"]
    res["context_switches"] = out["switches"]
    res["shapes"]["pool-concurrent"] = out["cases"]
    res["extra"]["pool_concurrent_runs"] = out["cases"]
    res["distinct"] = [hashlib.sha1(("pool %d %d" % (job["seed"], i)).encode()).hexdigest()[:16] for i in range(out["cases"])]
    for v in out["viol"]:
        res["mon_fail"].append({"msg": v["msg"], "replay": dict(rp, scenario=v["scenario"], run_seed=v["run_seed"]), "signature": None})
    return res


def make_jobs(prop, tier, seed):
    n = 6 if tier == "quick" else 32
    jobs = [{"kind": "pool", "prop": prop, "seed": seed * 31 + j, "n": 40} for j in range(2 if tier == "quick" else 12)]
    for j in range(n):
        jobs.append({"kind": "explore", "prop": prop, "seed": seed * 1000003 + j, "pf": 60, "cmds": 14, "threads": 3 + j % 2, "pool": 25,
                     "findings": j == 0})
    return jobs


def search_jobs(prop, tier, seed, corr_fail):
    return [{"kind": "explore", "prop": prop, "seed": 777000 + seed * 1000003 + j, "pf": 100, "cmds": 24, "threads": 4, "pool": 40,
             "findings": False, "no_driver": True} for j in range(8)]


def run_job(job):
    from . import m9_command
    prop = job["prop"]
    if job["kind"] == "pool":
        return run_pool(job)
    if job["kind"] == "replay" and (job["replay"].get("replay") or job["replay"]).get("model") == "m9-pool":
        rp = job["replay"].get("replay") or job["replay"]
        res = run_pool(dict(rp["job"], prop=prop, kind="pool"))
        if "infra_error" in res:
            return res
        hit = res["mon_fail"]
        return {"violated": bool(hit), "message": hit[0]["msg"] if hit else "no shell was shared in any explored schedule"}
    if job["kind"] == "replay":
        rp = job["replay"].get("replay") or job["replay"]
        j2 = dict(rp.get("job") or {})
        j2["prop"] = prop
        j2["kind"] = "explore"
        res = run_job(j2)
        sig = job["replay"].get("signature")
        hit = res.get("mon_fail") or [k for k in res.get("known", []) if sig is None or k["signature"] == sig]
        return {"violated": bool(hit), "message": hit[0]["msg"] if hit else "no monitor fired; Lean and the real code agree on every case"}
    r = m9_command.run_all(job["seed"], job["pf"], job["cmds"], job["threads"], job["pool"], job.get("findings", False))
    res = {"evaluations": len(r["lines"]), "transitions": 0, "context_switches": 0, "traces_validated": 0, "shapes": {},
           "distinct": [hashlib.sha1(l.encode()).hexdigest()[:16] for l in r["lines"]], "corr_fail": [], "mon_fail": [], "known": [],
           "samples": r["samples"][:3], "extra": {"quote_parse_cases": r["counts"]["pf"], "real_commands": r["counts"]["commands"],
                                                 "pool_sequences": r["counts"]["pool"]}}
    for l in r["lines"]:
        k = l.split(" ", 1)[0]
        res["shapes"][k] = res["shapes"].get(k, 0) + 1
    rp = {"model": "m9", "job": {k: v for k, v in job.items() if k not in ("prop", "kind")}}
    for m in r["monitor"]:
        res["mon_fail"].append({"msg": m, "replay": rp, "signature": None})
    for k in r["known"]:
        res["known"].append({"msg": k["msg"], "signature": k["signature"], "replay": rp})
    if not job.get("no_driver"):
        out = lean_audit.run_driver("run 0 m9\n" + "\n".join(r["lines"]) + "\nend\n")
        ok = [l for l in out if l.startswith("ok")]
        if ok:
            res["traces_validated"] = len(r["lines"])
        for l in out:
            if l.startswith("FAIL"):
                ws = l.split(" ", 3)
                ln = int(ws[2].split("=")[1])
                res["corr_fail"].append({"msg": "m9 PF (pure-function differential): " + (ws[3] if len(ws) > 3 else ""), "mode": "PF against Model/Command.lean",
                                         "replay": dict(rp, case=r["lines"][ln - 1] if 0 < ln <= len(r["lines"]) else None)})
                res["traces_validated"] = max(0, ln - 1)
    return res


def trusted_base(prop):
    return [
        "Lean 4.33 kernel; axioms of every theorem audited to be within {propext, Classical.choice, Quot.sound}",
        "statements in lean/MoThreads/Props/C18.lean",
        "hand-written pure functions lean/MoThreads/Model/Command.lean (quote = CPython's shlex.quote algorithm; shParse = POSIX word "
        "splitting restricted to what quote emits; frame/workerParse; Pool), tied to the real code by differential runs: real "
        "cmd_escape, real bash word splitting, real Command objects on recycled shells, the real LifetimeManager with stub shells",
        "not modelled (partial): bash itself, pipes, process scheduling, the Process reader (C17); the theorems are about the "
        "protocol logic, the monitors about real runs (sampled, wall-clock, not schedule-controlled)",
    ]


def assumptions(prop):
    return ["parameters contain no NUL or newline (the transport to the shell is line based)",
            "C18_framing assumes what the in-band protocol needs: no output line starts with the marker and the output ends with a "
            "newline; both exceptions are open known findings demonstrated on the real code at every run"]
