"""
M10 correspondence + monitors for C19: the REAL mo_threads.python.Python proxy (_execute, _watch_stdout, set/get and
attribute calls) under the deterministic scheduler with a stub worker process (two real Queues and a scripted FIFO
worker thread that answers every request line with exactly one reply line), against Model/PyProxy.lean.
Real worker round-trips (python_worker.py in a subprocess) are sampled separately in `real_roundtrips`.
"""
import json
import sys

from . import detsched as ds

RESULTS = [0, False, None, "", [], {}, 1, "x", [1, 2], {"a": 1}, 3.5, True]
# set()/get() through the stub: "" is excluded (mo_json encodes an empty string ARGUMENT as null; see real_roundtrips)
SETGET = [0, 1, 2, 4, 5, 6, 7, 8, 9, 10, 11]


def unwrap(v):
    from mo_dots import from_data
    return from_data(v)


def gen_scenario(rng):
    nthreads = rng.randint(1, 4)
    threads = []
    for _ in range(nthreads):
        ops = []
        for _ in range(rng.randint(1, 3)):
            r = rng.random()
            if r < 0.6:
                ops.append(["call", rng.randrange(len(RESULTS))])
            elif r < 0.75:
                ops.append(["fail"])
            elif r < 0.9:
                ops.append(["setget", rng.choice(SETGET)])
            else:
                ops.append(["call", rng.randrange(len(RESULTS)), "log"])
        threads.append(ops)
    return {"threads": threads}


def shape(sc):
    return "/".join("".join({"call": "c", "fail": "f", "setget": "s"}[o[0]] for o in t) for t in sc["threads"])


def run_scenario(sc, chooser=None, seed=0, max_steps=20000):
    ds.install()
    ds.reset_globals()
    from mo_threads import python as pymod, queues, signals, lock as lockmod, threads
    sched = ds.Sched(chooser=chooser, seed=seed, max_steps=max_steps, horizon=2.0)
    please_stop_timers, _ = ds.start_timers(sched)
    st = {"viol": [], "req": 0, "returned": {}, "store": {}}

    class StubProcess(object):
        def __init__(self):
            self.stdin = queues.Queue("stdin", silent=True)
            self.stdout = queues.Queue("stdout", silent=True)
            self.stderr = queues.Queue("stderr", silent=True)
            self.name = "stub"
            self.pid = 0

    class TracedPython(pymod.Python):
        def __setattr__(self, k, v):
            if k in ("done", "response", "error"):
                s = ds.CUR
                if s is not None and s.me() is not None:
                    s.yield_point(("Wattr", k))
                    object.__setattr__(self, k, v)
                    s.emit("m10", "W", k, describe(k, v))
                    return
            object.__setattr__(self, k, v)

        def __getattribute__(self, k):
            if k in ("done", "response", "error"):
                s = ds.CUR
                if s is not None and s.me() is not None:
                    s.yield_point(("Rattr", k))
                    v = object.__getattribute__(self, k)
                    s.emit("m10", "R", k, describe(k, v))
                    return v
            return object.__getattribute__(self, k)

    sig_ids = {}
    keep = []      # strong references: id() of a collected Signal would be reused

    def describe(k, v):
        if k == "done":
            if v is signals.DONE:
                return "DONE"
            if id(v) not in sig_ids:
                keep.append(v)
                sig_ids[id(v)] = len(sig_ids)
            return "sig%d" % sig_ids[id(v)]
        if k == "error":
            return "none" if v is None else "err"
        return code(unwrap(v))

    codes = {}

    def code(v):
        """canonical code of a JSON value: none for null/None, else a small integer per distinct value"""
        if v is None:
            return "none"
        key = json.dumps(v, sort_keys=True, default=str) + ":" + type(v).__name__
        return str(codes.setdefault(key, len(codes)))

    py = TracedPython.__new__(TracedPython)
    object.__setattr__(py, "process", StubProcess())
    lk = lockmod.Lock("proxy")
    lk.lock = ds.SchedLock()
    sched.tag(lk.lock, "PL")
    object.__setattr__(py, "lock", lk)
    object.__setattr__(py, "stop_error", None)
    object.__setattr__(py, "done", signals.DONE)
    object.__setattr__(py, "response", None)
    object.__setattr__(py, "error", None)
    reader_stop = signals.Signal("reader stop")

    # the scripted FIFO worker: one reply line per request line, in order
    def worker():
        while True:
            line = py.process.stdin.pop()
            if line == "please_stop":
                break
            cmd = json.loads(line)
            sched.emit("m10", "request")
            reply = answer(cmd)
            if "echo" in cmd and len(cmd["echo"]) > 2:
                py.process.stdout.add(json.dumps({"log": {"template": "hello", "params": {}}}))
            sched.emit("m10", "reply", "err" if "err" in reply else "out " + code(reply["out"]))
            py.process.stdout.add(json.dumps(reply))

    def answer(cmd):
        if "echo" in cmd:
            return {"out": RESULTS[cmd["echo"][0]]}      # the remote function returns the scripted value
        if "boom" in cmd:
            return {"err": {"template": "remote failure", "params": {}, "type": "ERROR"}}
        if "set" in cmd:
            for k, v in cmd["set"].items():
                st["store"][k] = v
            return {"out": {}}
        if "get" in cmd:
            return {"out": st["store"].get(cmd["get"])}
        return {"err": {"template": "unknown command", "params": {}, "type": "ERROR"}}

    # swallow mo_logs output of the reader (log lines are written to the main log)
    def reader():
        py._watch_stdout(reader_stop)

    def body(ti, ops):
        def run():
            for oi, op in enumerate(ops):
                if op[0] == "call":
                    v = RESULTS[op[1]]
                    tag = "%d.%d" % (ti, oi)
                    wl = len(op) > 2
                    sched.note("call", ti, "out", code(v), "log" if wl else "nolog")
                    try:
                        r = unwrap(py.echo(op[1], tag, 1) if wl else py.echo(op[1], tag))
                        sched.note("ret", ti, "value", code(r))
                        if r != v or type(r) is not type(v):
                            st["viol"].append("C19: call %s sent %r and received %r" % (tag, v, r))
                    except ds.SchedAbort:
                        raise
                    except Exception as e:   # noqa
                        sched.note("ret", ti, "raised")
                        st["viol"].append("C19: call %s (echo %r) raised %s" % (tag, v, str(e)[:100]))
                elif op[0] == "fail":
                    sched.note("call", ti, "err", "nolog")
                    try:
                        r = unwrap(py.boom(1))
                        sched.note("ret", ti, "value", code(r))
                        st["viol"].append("C19: a remote exception was returned as the value %r" % (r,))
                    except ds.SchedAbort:
                        raise
                    except Exception as e:   # noqa
                        sched.note("ret", ti, "raised")
                        if "remote failure" not in str(e):
                            st["viol"].append("C19: remote exception not reported faithfully: %s" % str(e)[:120])
                elif op[0] == "setget":
                    v = RESULTS[op[1]]
                    name = "v%d_%d" % (ti, oi)
                    sched.note("call", ti, "out", code({}), "nolog")
                    try:
                        py.set(name, v)
                        sched.note("ret", ti, "discard")
                        sched.note("call", ti, "out", code(v), "nolog")
                        r = unwrap(py.get(name))
                        sched.note("ret", ti, "value", code(r))
                        if r != v or type(r) is not type(v):
                            st["viol"].append("C19: set(%r)/get round trip returned %r" % (v, r))
                    except ds.SchedAbort:
                        raise
                    except Exception as e:   # noqa
                        sched.note("ret", ti, "raised")
                        st["viol"].append("C19: set/get of %r raised %s" % (v, str(e)[:100]))
        return run

    sched.spawn("worker", worker, background=True)
    sched.spawn("reader", reader, background=True)
    for ti, ops in enumerate(sc["threads"]):
        sched.spawn("t%d" % ti, body(ti, ops))
    outcome = sched.run()
    stuck = sorted(int(vt.name[1:]) for vt in sched.stuck if vt.name.startswith("t") and vt.name[1:].isdigit())
    lines = to_lines(sched.events)
    lines.append(" ".join(["end", outcome] + [str(t) for t in stuck]))
    viol = st["viol"]
    if outcome == "stuck":
        viol.append("C19: callers %s block forever although the worker is alive" % stuck)
    for vt in sched.vts:
        if vt.exc is not None:
            viol.append("unexpected exception in %s: %r" % (vt.name, vt.exc))
    return {"lines": lines, "outcome": outcome, "monitor": sorted(set(viol)), "choices": list(sched.choices), "cand_counts": list(sched.cand_counts), "steps": sched.steps,
            "switches": sched.context_switches, "stuck": stuck}


def to_lines(events):
    lines = []
    for ev in events:
        if ev[0] == "-":
            if ev[1] == "note":
                lines.append(" ".join(str(w) for w in ev[2:]))
            continue
        who = ev[0]
        t = who[1:] if who.startswith("t") and who[1:].isdigit() else who
        if ev[1] == "m10":
            if ev[2] in ("R", "W"):
                lines.append("step %s %s %s %s" % (t, ev[2], ev[3], str(ev[4]).replace(" ", "")))
            elif ev[2] == "request":
                lines.append("step worker request")
            elif ev[2] == "reply":
                lines.append("step worker reply %s" % ev[3])
        elif ev[1] in ("acq", "rel") and ev[2] == "PL":
            lines.append("step %s %s PL" % (t, ev[1]))
    return lines


# ---------------------------------------------------------------------------------------------------------------------
# the worker side: the REAL python_worker.command_loop under the scheduler, racing with the worker's logging thread
# ---------------------------------------------------------------------------------------------------------------------
WORKER_SCRIPT = "def ident(x):\n    return x\ndef boom(x):\n    raise Exception('remote failure')\n"
WVALUES = [0, False, None, [], {}, 1, "x", [1, None], {"a": 1}, True, 2.5]


def gen_worker_scenario(rng):
    reqs = []
    for _ in range(rng.randint(1, 5)):
        r = rng.random()
        if r < 0.5:
            reqs.append(["ident", rng.randrange(len(WVALUES))])
        elif r < 0.65:
            reqs.append(["boom"])
        elif r < 0.85:
            reqs.append(["setget", rng.randrange(len(WVALUES))])
        else:
            reqs.append(["ping"])
    return {"requests": reqs, "logs": rng.randint(0, 4)}


def worker_shape(sc):
    return "w:" + "".join(r[0][0] for r in sc["requests"]) + ":l%d" % sc["logs"]


def run_worker_scenario(sc, chooser=None, seed=0, max_steps=20000):
    """every request line is answered by exactly one well-formed out/err line, in order, whatever the logging thread does"""
    import _thread
    ds.install()
    ds.reset_globals()
    from mo_threads import python_worker as pw, signals
    sched = ds.Sched(chooser=chooser, seed=seed, max_steps=max_steps, horizon=2.0)
    ds.start_timers(sched)
    lines_in = [json.dumps({"exec": WORKER_SCRIPT})]
    expect = [{"out": {}}]
    for i, r in enumerate(sc["requests"]):
        if r[0] == "ident":
            lines_in.append(json.dumps({"ident": [WVALUES[r[1]]]}))
            expect.append({"out": WVALUES[r[1]]})
        elif r[0] == "boom":
            lines_in.append(json.dumps({"boom": [1]}))
            expect.append("err")
        elif r[0] == "ping":
            lines_in.append(json.dumps({"ping": {}}))
            expect.append({"out": {}})
        else:
            lines_in.append(json.dumps({"set": {"v%d" % i: WVALUES[r[1]]}}))
            expect.append({"out": {}})
            lines_in.append(json.dumps({"get": "v%d" % i}))
            expect.append({"out": WVALUES[r[1]]})
    lines_in.append(json.dumps({"stop": {}}))
    expect.append({"out": {}})
    stream = []
    pending = list(lines_in)

    class In(object):
        def readline(self):
            sched.yield_point(("stdin", "readline"))
            return (pending.pop(0) if pending else json.dumps({"stop": {}})).encode("utf8")

    class Out(object):
        def write(self, b):
            sched.yield_point(("stdout", "write"))
            stream.append(bytes(b))
            sched.emit("m10w", "write", len(b))

        def flush(self):
            pass

    saved = (pw.STDOUT, pw.STDIN, pw.STDERR, pw.please_stop)
    pw.STDOUT, pw.STDIN, pw.STDERR = Out(), In(), Out()
    pw.please_stop = signals.Signal("worker stop")
    swapped = {}
    for k, v in list(vars(pw).items()):
        if isinstance(v, _thread.LockType):
            swapped[k] = v
            setattr(pw, k, ds.SchedLock())

    def worker():
        pw.command_loop({})

    def log_thread():
        lg = pw.RawLogger()
        for i in range(sc["logs"]):
            lg.write("note {i}", {"i": i})

    viol = []
    try:
        sched.spawn("worker", worker)
        sched.spawn("logger", log_thread)
        outcome = sched.run()
    finally:
        pw.STDOUT, pw.STDIN, pw.STDERR, pw.please_stop = saved
        for k, v in swapped.items():
            setattr(pw, k, v)
    answers = []
    logs = 0
    for raw in b"".join(stream).split(b"\n"):
        if not raw.strip():
            if raw != b"" or False:
                pass
            continue
        try:
            d = json.loads(raw.decode("utf8"))
        except Exception:   # noqa
            viol.append("C19: the worker's stdout carries a line that is not one JSON message (an answer the proxy will drop, its caller "
                        "blocks forever): %r" % raw[:120])
            continue
        if not isinstance(d, dict):
            viol.append("C19: worker line is not an object: %r" % raw[:80])
        elif "log" in d:
            logs += 1
        else:
            answers.append(d)
    if b"\n\n" in b"".join(stream):
        pass
    if outcome == "done" and not viol:
        got = [("err" if "err" in a else {"out": a.get("out")}) for a in answers]
        want = [{"out": "ok"}] + [(e if e == "err" else {"out": norm_wire(e["out"])}) for e in expect]
        got = [(g if g == "err" else {"out": norm_wire(g["out"])}) for g in got]
        if got != want:
            viol.append("C19: the worker's answers %s differ from one answer per request in order %s" % (json.dumps(got)[:200], json.dumps(want)[:200]))
        if logs != sc["logs"]:
            viol.append("C19: %d log lines written, %d arrived whole" % (sc["logs"], logs))
    if outcome == "stuck":
        viol.append("C19: the worker loop is stuck")
    for vt in sched.vts:
        if vt.exc is not None:
            viol.append("unexpected exception in %s: %r" % (vt.name, vt.exc))
    return {"lines": [], "outcome": outcome, "monitor": sorted(set(viol)), "choices": list(sched.choices), "cand_counts": list(sched.cand_counts), "steps": sched.steps,
            "switches": sched.context_switches, "stuck": []}


def norm_wire(v):
    """mo_json on the wire: {} and null are the same absent `out` (see known finding on null members)"""
    if v is None or v == {} or v == "":
        return None
    return v
