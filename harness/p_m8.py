"""C17 plugin: M8 trace acceptance + monitors on the real Process (scripted Popen stub, deterministic scheduler), plus
sampled real children."""
import hashlib
import json
import os
import subprocess

from . import plug

RULE = {
    "C17": "(a) scenario = a child writing 0-6 lines (7 texts incl. empty, trailing/leading blanks, tabs) spread over stdout/stderr "
           "with optional pauses, exit status in {0,1,3,255} or death by a signal of its own (-15, -11; a killed child reports -9), exit delay 0-1.5 s, idle timeout 0.8/5 s, optional stop() by the "
           "program at 0/0.1/0.6 s, consumer draining during or after; real Process/_reader/_monitor/_writer/join/kill as real "
           "mo_threads Threads over a scripted Popen stub whose pipes reach EOF exactly at exit/kill; virtual clock; non-trivial = "
           ">=1 pre-emption; distinct = (scenario, schedule) hash.  (b) real children: sh -c and python children printing 0-400 "
           "lines over both streams (empty lines, blanks, non-ASCII, 300-char lines, missing final newline), exit status 0-255, "
           "lifetimes from ~1 ms, through the real Process on the OS scheduler",
}


class M8(plug.Model):
    name = "m8"
    mode = "TA (trace acceptance, thread-local steps lazy)"

    def run(self, sc, chooser, seed):
        from . import m8_process
        return m8_process.run_scenario(sc, chooser=chooser, seed=seed)

    def shape(self, sc):
        from . import m8_process
        return m8_process.shape(sc)

    def header(self, sc):
        from . import m8_process
        return "script=%s status=%d" % (",".join("%d:%d" % (c[0], j) for j, c in enumerate(sc["chunks"])), m8_process.mstat(sc["status"]))

    def est_steps(self, sc):
        return 500


MODEL = M8()


def gen(rng, prop, job):
    from . import m8_process
    return m8_process.gen_scenario(rng)


def make_jobs(prop, tier, seed):
    jobs = plug.std_jobs(prop, tier, seed, "m8", n_quick=14, per_quick=5, schedules=4)
    n = 2 if tier == "quick" else 12
    for j in range(n):
        jobs.append({"kind": "real", "prop": prop, "seed": seed * 7919 + j, "children": 40 if tier == "quick" else 120, "findings": j == 0})
    return jobs


def search_jobs(prop, tier, seed, corr_fail):
    jobs = plug.std_search_jobs(prop, tier, seed, corr_fail)
    for j in range(4):
        jobs.append({"kind": "real", "prop": prop, "seed": 99000 + seed * 7919 + j, "children": 80, "findings": False})
    return jobs


def run_real(job):
    env = dict(os.environ)
    env["PYTHONPATH"] = plug.ds.REPO + os.pathsep + plug.lean_audit.VERIF
    res = {"evaluations": 0, "transitions": 0, "context_switches": 0, "traces_validated": 0, "shapes": {},
           "distinct": [], "corr_fail": [], "mon_fail": [], "known": [], "samples": [], "extra": {}}
    rp = {"model": "m8-real", "job": {"seed": job["seed"], "children": job["children"], "findings": bool(job.get("findings"))}}
    args = ["/venv/bin/python", "-m", "harness.m8_real", str(job["seed"]), str(job["children"])]
    if job.get("findings"):
        args.append("findings")
    try:
        p = plug.run_group(args, plug.ds.REPO, env, 400)
    except Exception as e:   # noqa
        return {"infra_error": "real children could not be started: %r" % (e,)}
    line = [l for l in p.stdout.decode("utf8", "replace").splitlines() if l.startswith("M8REAL ")]
    if not line:
        res["mon_fail"].append({"msg": "C17: the real Process session (seed %d) did not finish within 400 s" % job["seed"], "replay": rp, "signature": None})
        return res
    out = json.loads(line[-1][7:])
    res["evaluations"] = out["cases"]
    res["extra"]["real_children"] = out["cases"]
    for k, v in out["kinds"].items():
        res["shapes"]["real:" + k] = v
    res["distinct"] = [hashlib.sha1(("real %d %d" % (job["seed"], i)).encode()).hexdigest()[:16] for i in range(out["cases"])]
    for m in out["viol"]:
        res["mon_fail"].append({"msg": m, "replay": rp, "signature": None})
    for k in out["known"]:
        res["known"].append({"msg": k["msg"], "signature": k["signature"], "replay": rp})
    return res


def run_job(job):
    if job["kind"] == "real":
        return run_real(job)
    if job["kind"] == "replay":
        rp = job["replay"].get("replay") or job["replay"]
        if rp.get("model") == "m8-real":
            res = run_real(dict(rp["job"], prop=job["prop"], kind="real"))
            if "infra_error" in res:
                return res
            sig = job["replay"].get("signature")
            hit = res["mon_fail"] or [k for k in res["known"] if sig is None or k["signature"] == sig]
            return {"violated": bool(hit), "message": hit[0]["msg"] if hit else "every real child was reported faithfully"}
    if job["kind"] == "shrink" and (job["failure"].get("replay") or {}).get("model") == "m8-real":
        return {"failure": job["failure"]}
    return plug.std_job(MODEL, gen, job)


def trusted_base(prop):
    return [
        "Lean 4.33 kernel; axioms of every theorem audited to be within {propext, Classical.choice, Quot.sound}",
        "statements in lean/MoThreads/Props/C17.lean",
        "hand-written model lean/MoThreads/Model/ProcessIO.lean, tied to Process._reader/_monitor/join/kill in "
        "/repo/mo_threads/processes.py by trace acceptance of real executions (harness/m8_process.py): every pipe read, queue "
        "add/close, please_stop trigger, monitor loop test, wait() outcome, kill, `stopped`, and the result of join()",
        "OS behaviour is modelled, not verified: the child's pipes reach end-of-file exactly when it exits or is killed; wait() "
        "after that returns its status; kill() of a finished child reaps it (CPython's Popen.send_signal); `readline may never "
        "return` (Windows) is outside the model; sampled with real children (harness/m8_real.py)",
        "line splitting / rstrip / a missing final newline are checked on real children only (monitor), not in the Lean model",
    ]


def assumptions(prop):
    return ["the line theorems assume the reader was not abandoned by the monitor's one-second wait limit (open known finding for a "
            "consumer that does not drain the queue)",
            "join() may raise TIMEOUT after the program itself called stop(): theorem C17_join_raises_iff is stated for userStop = false"]
