"""C13 / C14 plugin: M6 trace acceptance + monitors on the real till.daemon / Till()."""
from . import plug

RULE = {
    "C13": "scenario = 1-4 creator threads x 1-3 Till(seconds=s) calls issued at chosen clock values (s from past/zero/below/equal/above "
           "the interval), optional waits on them, optional daemon stop; virtual clock in 1/1024 s ticks, INTERVAL patched to 128 "
           "ticks (real 0.1 asserted); schedule = seeded random/PCT/sticky walk over every lock operation and traced flag access of "
           "till.py/signals.py; time advances only while the daemon sleeps; non-trivial = >=1 pre-emption inside Till()/daemon; "
           "distinct = (scenario, schedule) hash",
}
RULE["C14"] = RULE["C13"] + "; C14 profile: the daemon is asked to stop at clock values around every creation, creators wait on their Tills"


class M6(plug.Model):
    name = "m6"
    mode = "TA (trace acceptance with eager thread-local steps)"

    def run(self, sc, chooser, seed):
        from . import m6_till
        return m6_till.run_scenario(sc, chooser=chooser, seed=seed)

    def shape(self, sc):
        from . import m6_till
        return m6_till.shape(sc)

    def header(self, sc):
        return "I=128"

    def est_steps(self, sc):
        return 200


MODEL = M6()


def gen(rng, prop, job):
    from . import m6_till
    if job.get("crash"):
        return m6_till.gen_crash(rng, allow_crash=(prop == "C14"))       # (a daemon that dies fires everything early: C14's subject, not C13's)
    return m6_till.gen_scenario(rng, prop)


def make_jobs(prop, tier, seed):
    jobs = plug.std_jobs(prop, tier, seed, "m6", n_quick=16, per_quick=8, schedules=6)
    jobs.extend(plug.line_jobs(prop, tier, seed))
    if prop in ("C13", "C14"):
        for j in range(2 if tier == "quick" else 12):
            jobs.append({"kind": "explore", "crash": True, "prop": prop, "seed": seed * 49979693 + j, "scenarios": 8, "schedules": 4, "no_driver": True})
    if tier == "thorough":
        for j in range(24):
            jobs.append({"kind": "pbound", "prop": prop, "seed": seed * 104729 + j, "k": 2, "budget": 1200})
    else:
        jobs.append({"kind": "pbound", "prop": prop, "seed": seed * 104729, "k": 1, "budget": 100})
    return jobs


def search_jobs(prop, tier, seed, corr_fail):
    return plug.std_search_jobs(prop, tier, seed, corr_fail)


def run_job(job):
    if job["kind"] == "pbound":
        return plug.pbound_job(MODEL, plug.smallest_of(gen), job)
    return plug.std_job(MODEL, gen, job)


def shrink(prop, failure):
    return plug.std_shrink(MODEL, prop, failure)


def trusted_base(prop):
    return [
        "Lean 4.33 kernel; axioms of every theorem audited to be within {propext, Classical.choice, Quot.sound}",
        "statements in lean/MoThreads/Props/%s.lean" % prop,
        "hand-written model lean/MoThreads/Model/Till.lean, tied to /repo/mo_threads/till.py by trace acceptance of real executions "
        "(harness/m6_till.py) on a virtual clock: every acquire/release of Till.locker (with next_ping and len(new_timers) at the "
        "release), clock reads, sleeps/wake-ups, the loop test, reads of `enabled`, every timer firing, and the final fired set",
        "granularity gap: the harness pre-empts at lock operations and traced flag accesses, not inside the unlocked "
        "`Till.next_ping = min(...)` statement; the model splits it into read and write, so the theorems cover the finer race",
        "modelled, not verified: list.sort, weakref (every Till stays referenced), float arithmetic (exact with the dyadic interval), "
        "time.sleep waking at its deadline on an idle system",
    ]


def assumptions(prop):
    return ["otherwise idle system: steps cost no time; the clock advances only while the daemon sleeps and no creator is mid-creation",
            "INTERVAL = 0.1 s in the real code (asserted); lock-step runs use 0.125 s so that all floats are exact"]


for _k in list(RULE):      # RULE-EXTRA: what was added to the exploration after the rounds of seeded changes
    RULE[_k] += '; plus monitor-only jobs: a daemon that dies (C14), Tills dropped while pending, Tills with seconds=inf, line-mode jobs'
