"""Shared plumbing of the per-model plugins: batches of (scenario, schedule) runs on the real code,
their traces replayed through the Lean driver, monitor verdicts, replay objects."""
import hashlib
import json
import re
import os
import random

from . import detsched as ds
from . import lean_audit


class GroupResult(object):
    def __init__(self, stdout):
        self.stdout = stdout


def run_group(args, cwd, env, timeout):
    """run a helper process in its own session and always kill the whole process group afterwards: the real children it
    started (shells, Python workers) must not outlive it — an orphaned python_worker.py spins on its closed stdin for ever"""
    import signal
    import subprocess
    p = subprocess.Popen(args, cwd=cwd, env=env, stdout=subprocess.PIPE, stderr=subprocess.DEVNULL, start_new_session=True)
    try:
        out, _ = p.communicate(timeout=timeout)
    except subprocess.TimeoutExpired:
        out = b""
    finally:
        try:
            os.killpg(p.pid, signal.SIGKILL)
        except (ProcessLookupError, PermissionError):
            pass
        try:
            out2, _ = p.communicate(timeout=10)
            out = out or out2
        except Exception:   # noqa
            pass
    return GroupResult(out or b"")


def mk_chooser(kind, seed, est):
    if kind == "pct":
        return ds.pct_chooser(seed, depth=1 + seed % 3, est_steps=max(est, 20))
    if kind == "sticky":
        return ds.sticky_chooser(seed, switch_prob=0.15 + (seed % 5) * 0.1)
    return None   # seeded uniform random walk (Sched's default chooser)


KINDS = ["rand", "pct", "sticky", "rand"]


class Model(object):
    """what a plugin provides about one model"""
    name = "m?"
    mode = "TA"

    def run(self, scenario, chooser, seed):      # -> dict(lines, outcome, monitor, choices, steps, switches, ...)
        raise NotImplementedError

    def shape(self, scenario):
        return "?"

    def header(self, scenario):                  # words after "run <id> <model>"
        return ""

    def relevant(self, prop, result):            # -> (violations [str], known [ {msg, signature} ])
        msgs = [m for m in result["monitor"] if m.startswith(prop + ":") or m.startswith("unexpected")]
        return msgs, []

    def est_steps(self, scenario):
        return 100


_LIST = re.compile(r"\[[^\[\]]+\]")
_NUM = re.compile(r"(?<![A-Za-z_#])-?\d+(?:\.\d+)?")
_NUMS = re.compile(r"#(?:,#)+")
_PAIRS = re.compile(r"#:#(?:,#:#)+")


def line_kind(line):
    """the kind of a trace line: numbers and list contents abstracted away, flags and names kept (they select the branch)"""
    s = line
    while True:
        t = _LIST.sub("[..]", s)
        if t == s:
            break
        s = t
    s = _NUM.sub("#", s)
    s = _NUMS.sub("#,#", s)
    return _PAIRS.sub("#:#,..", s)


def run_batch(model, prop, items, use_driver=True, keep_samples=2):
    """items: list of (scenario, chooser_kind, chooser_seed, choices|None)"""
    res = {"evaluations": 0, "transitions": 0, "context_switches": 0, "traces_validated": 0, "shapes": {},
           "distinct": [], "corr_fail": [], "mon_fail": [], "known": [], "samples": [], "extra": {}}
    text = []
    meta = []
    for idx, item in enumerate(items):
        sc, ck, cs, choices = item[:4]
        if len(item) > 4:
            r = item[4]          # already executed (systematic exploration)
        else:
            chooser = ds.replay_chooser(choices) if choices is not None else mk_chooser(ck, cs, model.est_steps(sc))
            r = model.run(sc, chooser, cs)
        res["evaluations"] += 1
        res["transitions"] += r["steps"]
        res["context_switches"] += r["switches"]
        sh = model.shape(sc)
        res["shapes"][sh] = res["shapes"].get(sh, 0) + 1
        k = "outcome_" + r["outcome"]
        res["extra"][k] = res["extra"].get(k, 0) + 1
        if r["outcome"] == "hung":
            return {"infra_error": "a virtual thread blocked outside the scheduler (scenario %s)" % json.dumps(sc)}
        if r["switches"] > 0:
            res["distinct"].append(hashlib.sha1((json.dumps(sc, sort_keys=True) + json.dumps(r["choices"])).encode()).hexdigest()[:16])
        rp = {"model": model.name, "scenario": sc, "choices": r["choices"]}
        if ds.LINE_MODE:
            rp["lines"] = True
        viol, known = model.relevant(prop, r)
        if viol:
            res["mon_fail"].append({"msg": viol[0], "all": viol[:6], "replay": rp, "signature": None})
        for kf in known:
            res["known"].append({"msg": kf["msg"], "replay": rp, "signature": kf["signature"]})
        text.append(("run %d %s %s" % (idx, model.name, model.header(sc))).rstrip())
        text.extend(r["lines"])
        for ln in r["lines"]:
            kk = "kind:" + line_kind(ln)
            res["extra"][kk] = res["extra"].get(kk, 0) + 1
        meta.append((sc, r))
        if len(res["samples"]) < keep_samples and r["switches"] > 2:
            res["samples"].append({"scenario": sc, "schedule_prefix": r["choices"][:40], "outcome": r["outcome"],
                                   "trace_head": r["lines"][:16]})
    if use_driver and text:
        out = lean_audit.run_driver("\n".join(text) + "\n")
        seen = set()
        for line in out:
            ws = line.split(" ", 3)
            if ws[0] == "ok":
                res["traces_validated"] += 1
                seen.add(int(ws[1]))
            elif ws[0] == "FAIL":
                i = int(ws[1])
                seen.add(i)
                sc, r = meta[i]
                ln = int(ws[2].split("=")[1])
                res["corr_fail"].append({
                    "msg": "%s %s: %s" % (model.name, model.mode, ws[3] if len(ws) > 3 else ""), "mode": "%s against %s" % (model.mode, model.name),
                    "replay": {"model": model.name, "scenario": sc, "choices": r["choices"], "diverges_at_line": ln,
                               "trace_tail": r["lines"][max(0, ln - 8):ln + 1]}})
        for i in range(len(meta)):
            if i not in seen:
                sc, r = meta[i]
                res["corr_fail"].append({"msg": "%s: driver produced no verdict" % model.name, "mode": model.mode,
                                         "replay": {"model": model.name, "scenario": sc, "choices": r["choices"]}})
    return res


def smallest_of(gen, n=10):
    """a small-scenario generator out of an ordinary one: the shortest (as JSON) of n samples"""
    def gen_small(rng, prop, job):
        best = None
        for _ in range(n):
            sc = gen(rng, prop, job)
            if best is None or len(json.dumps(sc)) < len(json.dumps(best)):
                best = sc
        return best
    return gen_small


def pbound_job(model, gen_small, job):
    """systematic exploration (iterative context bounding): ALL schedules of one small scenario that deviate from the
    non-pre-emptive default schedule at no more than `k` decisions, up to `budget` runs"""
    prop = job["prop"]
    rng = random.Random(job["seed"])
    sc = gen_small(rng, prop, job)
    k = job.get("k", 2)
    budget = job.get("budget", 2500)
    items = []
    stack = [({}, 0)]
    exhausted = True
    per_level = {}
    while stack:
        if len(items) >= budget:
            exhausted = False
            break
        devs, start = stack.pop()
        r = model.run(sc, ds.deviation_chooser(devs), 0)
        items.append((sc, None, 0, list(r["choices"]), r))
        per_level[len(devs)] = per_level.get(len(devs), 0) + 1
        if r["outcome"] == "hung":
            break
        if len(devs) < k:
            counts = r.get("cand_counts") or []
            ch = r["choices"]
            for i in range(min(len(ch), len(counts)) - 1, start - 1, -1):
                for alt in range(counts[i]):
                    if alt != ch[i] % max(counts[i], 1):
                        d2 = dict(devs)
                        d2[i] = alt
                        stack.append((d2, i + 1))
    res = run_batch(model, prop, items, use_driver=not job.get("no_driver"))
    if "infra_error" in res:
        return res
    res["extra"]["pbound_scenarios"] = 1
    res["extra"]["pbound_runs"] = len(items)
    res["extra"]["pbound_exhausted_k%d" % k] = 1 if exhausted else 0
    for lv, n in per_level.items():
        res["extra"]["pbound_runs_with_%d_deviations" % lv] = n
    return res


def load_corpus(name):
    d = os.path.join(lean_audit.VERIF, "corpus", name)
    out = []
    if os.path.isdir(d):
        for f in sorted(os.listdir(d)):
            if f.endswith(".json"):
                out.append(json.load(open(os.path.join(d, f))))
    return out


def wants_lines(job):
    """a job (or the failure it replays / shrinks) that runs with every line of the library as a pre-emption point"""
    if job.get("lines"):
        return True
    for k in ("replay", "failure"):
        d = job.get(k) or {}
        if d.get("lines") or (d.get("replay") or {}).get("lines"):
            return True
    return False


def std_job(model, gen, job):
    """the job kinds every plugin supports: replay, corpus, around, explore"""
    old = ds.LINE_MODE
    ds.LINE_MODE = wants_lines(job)
    try:
        return _std_job(model, gen, job)
    finally:
        ds.LINE_MODE = old


def _std_job(model, gen, job):
    prop = job["prop"]
    kind = job["kind"]
    if kind == "replay":
        rp = job["replay"].get("replay") or job["replay"].get("first_divergence") or job["replay"]
        res = run_batch(model, prop, [(rp["scenario"], None, 0, rp["choices"])])
        if "infra_error" in res:
            return res
        sig = job["replay"].get("signature")
        hit = res["mon_fail"] or [k for k in res["known"] if sig is None or k["signature"] == sig]
        bad = hit or res["corr_fail"]
        return {"violated": bool(hit),
                "message": (bad[0]["msg"] if bad else "no monitor fired; the model accepts the trace")
                + ("" if hit or not res["corr_fail"] else " [correspondence diverges]")}
    if kind == "shrink":
        return {"failure": std_shrink(model, prop, job["failure"])}
    if kind == "corpus":
        return run_batch(model, prop, [(it["scenario"], None, 0, it["choices"]) for it in job["items"]])
    if kind == "around":
        rng = random.Random(job["seed"])
        items = [(job["scenario"], rng.choice(KINDS), rng.randrange(1 << 30), None) for _ in range(job["schedules"])]
        return run_batch(model, prop, items, use_driver=False)
    rng = random.Random(job["seed"])
    items = []
    for _ in range(job["scenarios"]):
        sc = gen(rng, prop, job)
        for j in range(job["schedules"]):
            items.append((sc, KINDS[j % 4], rng.randrange(1 << 30), None))
    return run_batch(model, prop, items, use_driver=not job.get("no_driver"))


def line_jobs(prop, tier, seed, n_quick=2, n_thorough=12, scenarios=6, schedules=4):
    """monitor-only exploration with every line of the library's own functions as a pre-emption point: what a change does
    between two statements that the harness does not know about (an unlocked read-copy-write, a test moved out of a lock)
    becomes reachable without anybody having placed a yield there"""
    return [{"kind": "explore", "lines": True, "no_driver": True, "prop": prop, "seed": seed * 3010349 + j, "scenarios": scenarios,
             "schedules": schedules} for j in range(n_quick if tier == "quick" else n_thorough)]


def std_jobs(prop, tier, seed, corpus_name, n_quick=16, per_quick=10, n_thorough=96, per_thorough=16, schedules=8, extra=None):
    jobs = []
    corpus = load_corpus(corpus_name)
    if corpus:
        jobs.append({"kind": "corpus", "prop": prop, "items": corpus})
    n = n_quick if tier == "quick" else n_thorough
    per = per_quick if tier == "quick" else per_thorough
    for j in range(n):
        job = {"kind": "explore", "prop": prop, "seed": seed * 1000003 + j, "scenarios": per, "schedules": schedules}
        if extra:
            job.update(extra)
        jobs.append(job)
    return jobs


def std_search_jobs(prop, tier, seed, corr_fail, extra=None):
    jobs = []
    for f in corr_fail[:8]:
        rp = f.get("replay") or {}
        if rp.get("scenario"):
            jobs.append({"kind": "around", "prop": prop, "scenario": rp["scenario"], "seed": seed + len(jobs), "schedules": 200})
    n = 32 if tier == "quick" else 96
    for j in range(n):
        job = {"kind": "explore", "prop": prop, "seed": 555000 + seed * 1000003 + j, "scenarios": 12, "schedules": 12, "no_driver": True}
        if extra:
            job.update(extra)
        jobs.append(job)
    return jobs


def std_shrink(model, prop, failure, tries=25):
    """greedy: drop whole threads / trailing elements of per-thread lists while some schedule still fails"""
    rp = failure["replay"]
    sc = rp["scenario"]
    if "threads" not in sc:
        return failure

    def fails(sc, choices, seed):
        r = model.run(sc, ds.replay_chooser(choices) if choices is not None else None, seed)
        v, k = model.relevant(prop, r)
        return (v[0] if v else None), r

    msg, r = fails(sc, rp["choices"], 0)
    if not msg:
        return failure
    choices = rp["choices"]
    improved = True
    rounds = 0
    while improved and rounds < 12:
        improved = False
        rounds += 1
        for ti in range(len(sc["threads"])):
            cands = []
            c1 = json.loads(json.dumps(sc))
            del c1["threads"][ti]
            if c1["threads"]:
                cands.append(c1)
            if len(sc["threads"][ti]) > 1:
                c2 = json.loads(json.dumps(sc))
                c2["threads"][ti].pop()
                cands.append(c2)
            for cand in cands:
                for attempt in range(tries):
                    m2, r2 = fails(cand, None, attempt)
                    if m2:
                        sc, choices, msg, r = cand, r2["choices"], m2, r2
                        improved = True
                        break
                if improved:
                    break
            if improved:
                break
    out = dict(failure)
    out["replay"] = {"model": model.name, "scenario": sc, "choices": choices}
    if rp.get("lines"):
        out["replay"]["lines"] = True
    out["msg"] = msg
    return out


# ---- the layer below: Signal.then / go / wait / remove_then are atomic in the models of Lock, Queue and composites -----------

def m1_layer_jobs(prop, tier, seed, n_quick=60, n_thorough=120):
    """the M1 exploration (C01/C02's subject) run for a property of a layer above, so that a change which breaks the atomicity
    of the Signal operations is reported, with a failing schedule, for that property too"""
    from . import p_m1
    jobs = []
    n = n_quick if tier == "quick" else n_thorough
    for i, inner in enumerate(("C02", "C01")):
        for j in p_m1.make_jobs(inner, tier, seed)[: n // 2]:
            jobs.append({"kind": "layer", "prop": prop, "inner": dict(j, prop=inner)})
    return jobs


def run_m1_layer(job, assumes):
    from . import p_m1
    res = p_m1.run_job(job["inner"])
    if "infra_error" in res:
        return res
    prop = job["prop"]
    for f in res.get("mon_fail", []):
        f["msg"] = "%s: Signal.then/go/wait/remove_then are not atomic with respect to each other, which %s assumes (%s)" % (prop, assumes, f["msg"])
        f["replay"] = {"model": "m1-layer", "inner": f.get("replay"), "inner_prop": job["inner"].get("prop", "C02")}
    for f in res.get("corr_fail", []):
        f["msg"] = "layer M1 (atomicity of then/go/wait/remove_then): " + f["msg"]
        f["replay"] = {"model": "m1-layer", "inner": f.get("replay"), "inner_prop": job["inner"].get("prop", "C02")}
    res["known"] = []
    return res


def m1_layer_replay(job):
    """replay / shrink of a failure found by a layer job; None if the job is not one"""
    rp0 = (job.get("replay") or {}).get("replay") or job.get("replay") or (job.get("failure") or {}).get("replay") or {}
    if rp0.get("model") != "m1-layer":
        return None
    from . import p_m1
    if job["kind"] == "shrink":
        return {"failure": job["failure"]}
    return p_m1.run_job({"kind": "replay", "prop": rp0.get("inner_prop", "C02"), "replay": rp0.get("inner") or {}})


# ---- the Lock below the Queue ---------------------------------------------------------------------------------------------------

def m3_layer_jobs(prop, tier, seed, n_quick=10, n_thorough=40):
    """the M3 exploration (C05/C06's subject: mutual exclusion, no lost notification) run for a Queue property"""
    from . import p_m3
    jobs = []
    n = n_quick if tier == "quick" else n_thorough
    for inner in ("C06", "C05"):
        js = [j for j in p_m3.make_jobs(inner, tier, seed) if j.get("kind") in ("explore", "pbound", "corpus") and not j.get("side")
              and not j.get("lines")]
        for j in js[: n // 2]:
            jobs.append({"kind": "layer3", "prop": prop, "inner": dict(j, prop=inner)})
    return jobs


def run_m3_layer(job):
    from . import p_m3
    res = p_m3.run_job(job["inner"])
    if "infra_error" in res or "mon_fail" not in res:
        return res
    prop = job["prop"]
    for f in res.get("mon_fail", []):
        f["msg"] = "%s: the Lock under the Queue does not keep what the model of Queue assumes of it (%s)" % (prop, f["msg"])
        f["replay"] = {"model": "m3-layer", "inner": f.get("replay"), "inner_prop": job["inner"].get("prop", "C06")}
    for f in res.get("corr_fail", []):
        f["msg"] = "layer M3 (Lock): " + f["msg"]
        f["replay"] = {"model": "m3-layer", "inner": f.get("replay"), "inner_prop": job["inner"].get("prop", "C06")}
    res["known"] = []
    return res


def m3_layer_replay(job):
    rp0 = (job.get("replay") or {}).get("replay") or job.get("replay") or (job.get("failure") or {}).get("replay") or {}
    if rp0.get("model") != "m3-layer":
        return None
    from . import p_m3
    if job["kind"] == "shrink":
        return {"failure": job["failure"]}
    return p_m3.run_job({"kind": "replay", "prop": rp0.get("inner_prop", "C06"), "replay": rp0.get("inner") or {}})
