"""
C17, real children: the REAL mo_threads.Process running real child programs (wall clock, OS scheduling).
Run as a separate process (the scheduler harness patches mo_threads):

    PYTHONPATH=/repo:/verif python -m harness.m8_real <seed> <nchildren>

Prints one JSON object: {"cases": n, "viol": [...], "known": [...], "kinds": {...}}.
"""
import json
import random
import sys
import threading
import time

CHILD = r"""
import sys, time
spec = __SPEC__
for stream, text, pause in spec["chunks"]:
    f = sys.stdout if stream == 0 else sys.stderr
    f.write(text)
    f.flush()
    if pause:
        time.sleep(pause)
if spec.get("close_gap"):
    import os
    sys.stdout.flush(); sys.stderr.flush()
    os.close(1); os.close(2)          # the pipes reach end-of-file while the child is still alive
    time.sleep(spec["close_gap"])
    os._exit(spec["status"])
sys.exit(spec["status"])
"""

WORDS = ["", "a", "hello world", "  indented", "trailing   ", "tab\there", "é ü", "x" * 300, "{}", "0", "-"]


def gen_child(rng):
    """a child: a list of (stream, text, pause) chunks and an exit status"""
    chunks = []
    nlines = rng.choice([0, 0, 1, 2, 3, 5, 8, 40, 400])
    for i in range(nlines):
        stream = 0 if rng.random() < 0.7 else 1
        w = rng.choice(WORDS) if rng.random() < 0.5 else "line %d" % i
        pause = rng.choice([0, 0, 0, 0, 0.001, 0.01]) if nlines < 50 else 0
        chunks.append([stream, w + "\n", pause])
    if nlines and rng.random() < 0.25:
        chunks[-1][1] = chunks[-1][1].rstrip("\n") or "tail"       # no final newline
    status = rng.choice([0, 0, 0, 1, 2, 3, 77, 255])
    tail_pause = rng.choice([0, 0, 0, 0.005, 0.05, 0.3])
    if chunks:
        chunks[-1][2] = tail_pause
    else:
        chunks.append([0, "", tail_pause])
    spec = {"chunks": chunks, "status": status}
    if rng.random() < 0.2:
        spec["close_gap"] = rng.choice([0.05, 0.15, 0.3])      # well inside the monitor's half-second grace period
    return spec


def expected(spec, stream):
    text = "".join(c[1] for c in spec["chunks"] if c[0] == stream)
    lines = text.split("\n")
    if lines and lines[-1] == "":
        lines.pop()
    return [l.rstrip() for l in lines]


def main(seed, n):
    from mo_threads import start_main_thread, stop_main_thread, Process, PLEASE_STOP
    rng = random.Random(seed)
    out = {"cases": 0, "viol": [], "known": [], "kinds": {}}
    start_main_thread()

    def bump(k):
        out["kinds"][k] = out["kinds"].get(k, 0) + 1

    for i in range(n):
        kind = rng.choice(["py", "py", "py", "sh"])
        if kind == "sh":
            status = rng.choice([0, 0, 1, 7])
            words = [rng.choice(["a", "b c", "", "zz  "]) for _ in range(rng.randint(0, 3))]
            script = "".join("echo '%s'; " % w for w in words) + "exit %d" % status
            params = ["sh", "-c", script]
            spec = {"chunks": [[0, w + "\n", 0] for w in words], "status": status}
            if not words:
                bump("sh-silent")
            else:
                bump("sh")
        else:
            spec = gen_child(rng)
            params = [sys.executable, "-c", CHILD.replace("__SPEC__", repr(spec))]
            bump("py-%dlines" % sum(1 for c in spec["chunks"] if c[1]))
        out["cases"] += 1
        box = {}

        def run():
            try:
                p = Process("c17-%d-%d" % (seed, i), params, timeout=30, startup_timeout=30)
                box["p"] = p
                p.stopped.wait()
                # read the queues first: a failing join() moves the stderr lines into its error message
                box["closed"] = (bool(p.stdout.closed), bool(p.stderr.closed))
                box["out"] = [l for l in p.stdout.pop_all() if l is not PLEASE_STOP]
                box["err"] = [l for l in p.stderr.pop_all() if l is not PLEASE_STOP]
                try:
                    p.join(raise_on_error=True)
                    box["raised"] = None
                except Exception as e:   # noqa
                    box["raised"] = str(e).replace("\n", " ")[:160]
                box["rc"] = p.returncode
            except BaseException as e:   # noqa
                box["crash"] = repr(e)
        t = threading.Thread(target=run, daemon=True)
        t.start()
        t.join(60)
        what = "child #%d %s" % (i, json.dumps(spec)[:140])
        if t.is_alive():
            out["viol"].append("C17: join() did not return within 60 s for %s" % what)
            break
        if "crash" in box:
            out["viol"].append("C17: harness crash %s for %s" % (box["crash"], what))
            continue
        eo, ee = expected(spec, 0), expected(spec, 1)
        if box["out"] != eo:
            out["viol"].append("C17: stdout lines differ: got %d lines %s, child wrote %d lines %s (%s)"
                               % (len(box["out"]), json.dumps(box["out"][:4]), len(eo), json.dumps(eo[:4]), what))
        if box["err"] != ee:
            out["viol"].append("C17: stderr lines differ: got %d lines %s, child wrote %d lines %s (%s)"
                               % (len(box["err"]), json.dumps(box["err"][:4]), len(ee), json.dumps(ee[:4]), what))
        if box["rc"] != spec["status"]:
            out["viol"].append("C17: returncode %r, child exited with %d (%s)" % (box["rc"], spec["status"], what))
        if (box["raised"] is not None) != (spec["status"] != 0):
            out["viol"].append("C17: join() %s for a child that exited %d on its own (%s)"
                               % ("raised `%s`" % box["raised"] if box["raised"] else "did not raise", spec["status"], what))
        if box["closed"] != (True, True):
            out["viol"].append("C17: queues not closed after join: %s (%s)" % (box["closed"], what))
    if len(sys.argv) > 3 and sys.argv[3] == "findings":
        # a consumer that does not read until the process has stopped: the queue (max 1024) fills, the reader blocks in add(),
        # the monitor abandons it one second after the child ended and closes the queue
        nl = 3000
        p = Process("c17-slow", [sys.executable, "-c", "for i in range(%d): print('line', i)" % nl], timeout=30, startup_timeout=30)
        p.stopped.wait()
        got = [l for l in p.stdout.pop_all() if l is not PLEASE_STOP]
        out["cases"] += 1
        bump("slow-consumer")
        if got != ["line %d" % i for i in range(nl)]:
            if got == ["line %d" % i for i in range(len(got))]:
                out["known"].append({"signature": "C17/reader-abandoned-after-wait-limit",
                                     "msg": "a consumer that reads only after `stopped` received %d of %d lines" % (len(got), nl)})
            else:
                out["viol"].append("C17: slow consumer received lines out of order or duplicated: %s" % json.dumps(got[:5]))
        try:
            p.join(raise_on_error=False)
        except Exception:   # noqa
            pass
    if len(sys.argv) > 3 and sys.argv[3] == "findings":
        # a burst larger than the queue (max 1024) from a child that exits at once, and a consumer that starts reading when the
        # child is gone (please_stop is set at the first end-of-file) and then reads without pause: the reader, parked on the full
        # queue at that moment, must deliver the rest — nothing is abandoned, the consumer is never a second late
        nl = 2000
        p = Process("c17-burst", [sys.executable, "-c", "import sys; sys.stdout.write(''.join('line %%d\\n' %% i for i in range(%d)))" % nl],
                    timeout=30, startup_timeout=30)
        t0 = time.time()
        while not p.please_stop and time.time() - t0 < 20:
            time.sleep(0.005)
        got = []
        t1 = time.time()
        last, worst_gap = t1, 0.0
        while not p.stopped and time.time() - t1 < 20:
            got.extend(l for l in p.stdout.pop_all() if l is not PLEASE_STOP)
            time.sleep(0.002)
            now = time.time()
            worst_gap, last = max(worst_gap, now - last), now
        got.extend(l for l in p.stdout.pop_all() if l is not PLEASE_STOP)
        out["cases"] += 1
        bump("burst-prompt-consumer")
        if worst_gap > 0.4:
            bump("burst-consumer-starved")      # this consumer did pause (machine load): the run says nothing
        elif got != ["line %d" % i for i in range(nl)]:
            out["viol"].append("C17: a child wrote %d lines in one burst and exited 0; a consumer that started reading when the child "
                               "had gone and never paused received %d of them (last: %s)" % (nl, len(got), json.dumps(got[-1:])))
        try:
            p.join(raise_on_error=False)
        except Exception:   # noqa
            pass
    print("M8REAL " + json.dumps(out, default=str))
    sys.stdout.flush()
    try:
        stop_main_thread()
    except BaseException:   # noqa
        pass


if __name__ == "__main__":
    main(int(sys.argv[1]), int(sys.argv[2]))
