"""
M9 correspondence + monitors for C18.  NOT under the deterministic scheduler: bash, pipes and real processes are
involved, so these are wall-clock runs of the REAL code:
  * PF  quote      : Lean `commandLine`  vs  " ".join(cmd_escape(p))         (real shlex.quote through commands.py)
  * PF  parse      : Lean `shParse`      vs  the words REAL bash makes of that line (printf '%s\\0')
  * TA  workerParse: Lean `workerParse`  vs  what real Command objects delivered, on the lines their shell printed
  * OP  pool       : Lean `Pool.run`     vs  the real LifetimeManager bookkeeping with stub shells
Monitors (independent of Lean): every Command's stdout lines and returncode equal what its own program printed /
returned, with many Commands running concurrently on recycled shells.
"""
import json
import os
import random
import subprocess
import sys
import threading
import time

REPO = os.environ.get("MO_THREADS_REPO", "/repo")
if REPO not in sys.path[:1]:
    sys.path.insert(0, REPO)

MARKER = "END-OF-COMMAND-MARKER"
ALPHABET = list("abcXYZ019 _@%+=:,./-'\"\\$`!*?[]{}()<>|&;~#^\t") + ["é", "λ", "中", "\u00a0", "😀"]


def enc(s):
    return ".".join("%x" % ord(c) for c in s) if s else "-"


def gen_args(rng):
    n = rng.randint(0, 5)
    out = []
    for _ in range(n):
        k = rng.choice([0, 1, 1, 2, 3, 5, 9, 20])
        if rng.random() < 0.3:
            out.append("".join(rng.choice("abcXYZ019_@%+=:,./-") for _ in range(k)))
        else:
            out.append("".join(rng.choice(ALPHABET) for _ in range(k)))
    return out


def bash_words(line):
    """what real bash makes of the command line: one NUL-terminated string per word"""
    p = subprocess.run(["bash", "-c", "printf '%s\\0' " + line], stdout=subprocess.PIPE, stderr=subprocess.PIPE, timeout=20)
    if p.returncode != 0:
        return None
    raw = p.stdout.decode("utf8", "surrogateescape")
    if raw == "" or raw == "\0":
        return [] if line.strip() == "" else [""]
    return raw.split("\0")[:-1]


def pf_lines(rng, n):
    """protocol lines for the quote/parse differential + python-side violations"""
    import mo_threads.commands as commands
    assert os.path.realpath(commands.__file__).startswith(os.path.realpath(REPO))
    lines, viol, samples = [], [], []
    for _ in range(n):
        args = gen_args(rng)
        line = " ".join(commands.cmd_escape(a) for a in args)
        lines.append("quote %s = %s" % (" ".join(enc(a) for a in args), enc(line)))
        words = bash_words(line) if args else []
        if words is None:
            viol.append("C18: bash rejected the command line built for %r" % (args,))
            continue
        if words != args:
            viol.append("C18: parameters %r reach the program as %r" % (args, words))
        lines.append("parse %s = %s" % (enc(line), " ".join(enc(w) for w in words)))
        if len(samples) < 3:
            samples.append({"params": args, "line": line})
    return lines, viol, samples


PROG = r"""
import sys, json
args = sys.argv[1:]
n = int(args[0]); rc = int(args[1]); tag = args[2]
sys.stdout.write(json.dumps(args[3:]) + "\n")
for i in range(n):
    if i % 4 == 3:
        sys.stdout.write("\n" if i % 8 == 3 else "   \n")     # a blank line, a line of blanks: lines like any other
    else:
        sys.stdout.write("%s line %d%s\n" % (tag, i, " " * (i % 3)))
sys.stdout.flush()
sys.exit(rc)
"""


def real_commands(rng, n_cmds, n_threads, with_findings=False):
    """run real Commands concurrently on recycled shells; returns (protocol lines, violations, known findings, samples)"""
    import mo_threads
    from mo_threads import commands, Command, Thread, Till
    assert os.path.realpath(commands.__file__).startswith(os.path.realpath(REPO))
    taps = {}

    class Tap(object):
        def __init__(self, source, cmd):
            self.source = source
            cmd._verif_tap = self.vals = []

        def pop(self, till=None):
            v = self.source.pop(till=till)
            self.vals.append(v)
            return v

        def __getattr__(self, k):
            return getattr(self.source, k)

    orig_worker = Command._worker

    def worker(self, source, destination, please_stop=None):
        return orig_worker(self, Tap(source, self), destination, please_stop=please_stop)
    Command._worker = worker
    lines, viol, samples, known = [], [], [], []
    results = []
    lock = threading.Lock()
    specs = []
    for i in range(n_cmds):
        extra = gen_args(rng)
        extra = [a.replace("\n", "") for a in extra]
        specs.append({"n": rng.choice([0, 1, 2, 5, 30]), "rc": rng.choice([0, 0, 1, 2, 3, 7, 127, 255]), "tag": "c%d" % i, "extra": extra,
                      "cwd": rng.choice(["/tmp", "/", "/tmp"])})

    def run_batch(mine, please_stop):
        for sp in mine:
            try:
                c = Command(sp["tag"], [sys.executable, "-c", PROG, str(sp["n"]), str(sp["rc"]), sp["tag"]] + sp["extra"], cwd=sp["cwd"], timeout=20)
                out = []
                deadline = Till(seconds=30)
                while not deadline:
                    v = c.stdout.pop(till=deadline)
                    if v is None:
                        continue
                    if v == mo_threads.PLEASE_STOP:
                        break
                    out.append(v)
                c.join(till=Till(seconds=10))
                with lock:
                    results.append((sp, out, c.returncode, list(getattr(c, "_verif_tap", []))))
            except Exception as e:   # noqa
                with lock:
                    results.append((sp, None, "error: %s" % str(e)[:200], []))
    threads = []
    for t in range(n_threads):
        threads.append(Thread.run("batch%d" % t, run_batch, specs[t::n_threads]))
    for t in threads:
        try:
            t.join()
        except Exception as e:   # noqa
            # a batch thread does nothing but run Commands and collect what they yield: if joining it fails, something the
            # library started under it (a shell, its pipe threads) failed when the thread ended
            viol.append("C18: the thread that ran a batch of Commands could not be joined cleanly: %s"
                        % " | ".join(str(e).strip().splitlines()[:6])[:300])
    for sp, out, rc, toks in results:
        if out is None:
            viol.append("C18: Command %s failed to run: %s" % (sp["tag"], rc))
            continue
        want = [json.dumps(sp["extra"])] + [("" if i % 4 == 3 else ("%s line %d%s" % (sp["tag"], i, " " * (i % 3))).rstrip()) for i in range(sp["n"])]
        if out != want:
            viol.append("C18: Command %s yielded stdout %r, its program printed %r" % (sp["tag"], out[:4], want[:4]))
        if rc != sp["rc"]:
            viol.append("C18: Command %s has returncode %r, its program exited with %d" % (sp["tag"], rc, sp["rc"]))
        # tokens the shell printed while this Command owned it -> Lean workerParse must give what the Command delivered
        tl = []
        prev_marker = False
        for v in toks:
            if v is None or v == mo_threads.PLEASE_STOP:
                continue
            if prev_marker and v.strip().isdigit():
                tl.append("S:%d" % int(v))
                prev_marker = False
                continue
            prev_marker = False
            if v.startswith(MARKER):
                tl.append("M:" + enc(v[len(MARKER):]))
                prev_marker = True
            else:
                tl.append("L:" + enc(v))
        if isinstance(rc, int):
            lines.append("wparse %s = %s ; %d" % (" ".join(tl), " ".join(enc(o) for o in out), rc))
        if len(samples) < 2:
            samples.append({"command": sp, "stdout": out[:3], "returncode": rc})
    if with_findings:
        known.extend(probe_findings(Command, Till, mo_threads))
        viol.extend(probe_idle_reuse(Command, Till, mo_threads))
        viol.extend(probe_dead_shell(Command, Till, mo_threads))
        viol.extend(probe_retired_shell(Command, Till, mo_threads))
    Command._worker = orig_worker
    return lines, viol, known, samples


def probe_dead_shell(Command, Till, mo_threads):
    """history of shell reuse: a shell dies while it runs a Command (here: killed by the command itself; a command that the
    inactivity monitor kills, or `exit`, has the same effect).  The next Command for the same directory must get a live shell:
    its own lines, its own status.  The dead shell's `stopped` is made to come a moment after the pool's sweep (the usual
    order; the last step of its monitor is delayed from here), so that it is still in the pool when the next Command asks."""
    import tempfile
    import time
    out = []
    cwd = tempfile.mkdtemp(prefix="c18_dead_shell_")

    def run(name, params):
        c = Command(name, params, cwd=cwd, timeout=10)
        got = []
        deadline = Till(seconds=12)
        while not deadline:
            v = c.stdout.pop(till=deadline)
            if v == mo_threads.PLEASE_STOP:
                break
            if v is not None:
                got.append(v)
        try:
            c.join(till=Till(seconds=5))
        except Exception:   # noqa
            pass
        return c, got

    try:
        warm, got = run("dead-warm", ["echo", "warm"])
        if got != ["warm"] or warm.returncode != 0:
            return out          # the plain case is reported by the main batch
        shell = warm.process
        real_close = shell.stdin.close

        def slow_close():
            time.sleep(0.3)
            return real_close()
        shell.stdin.close = slow_close
        crash, _ = run("dead-crash", ["bash", "-c", "echo bye; kill -9 $PPID"])
        if crash.process is not shell:
            return out          # the idle shell was not reused: nothing to observe
        t0 = time.time()
        while not shell.stopped and time.time() - t0 < 10:
            time.sleep(0.05)
        if not shell.stopped:
            return out
        time.sleep(0.2)
        try:
            nxt, got = run("dead-next", ["echo", "hello"])
            if got != ["hello"] or nxt.returncode != 0:
                out.append("C18: the Command issued after a shell had died (killed while it ran the previous Command of that directory) "
                           "yielded stdout %r and returncode %r instead of ['hello'] and 0%s"
                           % (got, nxt.returncode, " - it was handed the dead shell" if nxt.process is shell else ""))
        except Exception as e:   # noqa
            out.append("C18: the Command issued after a shell had died could not run: %s" % str(e).strip().splitlines()[0][:160])
    finally:
        try:
            os.rmdir(cwd)
        except OSError:
            pass
    return out


def probe_retired_shell(Command, Till, mo_threads):
    """history of shell reuse: a shell has been idle for longer than STALE_MAX_AGE (shortened from here), the pool's review
    retires it (writes "exit" to it), and at that very moment the next Command of that directory is made.  It must get its own
    lines and status: a shell that is being retired is no longer in the pool when it is told to go.  The retiring shell's end is
    made to be noticed half a second late (its wait() is slowed from here), as on a busy machine."""
    import tempfile
    import threading
    import time
    from mo_threads import commands
    out = []
    cwd = tempfile.mkdtemp(prefix="c18_retired_shell_")
    old_age = commands.STALE_MAX_AGE

    def run(name, params):
        c = Command(name, params, cwd=cwd, timeout=10)
        got = []
        deadline = Till(seconds=12)
        while not deadline:
            v = c.stdout.pop(till=deadline)
            if v == mo_threads.PLEASE_STOP:
                break
            if v is not None:
                got.append(v)
        try:
            c.join(till=Till(seconds=5))
        except Exception:   # noqa
            pass
        return c, got

    try:
        commands.STALE_MAX_AGE = 0.5
        a, got = run("retire-a", ["echo", "from A"])
        if got != ["from A"] or a.returncode != 0:
            return out
        shell, manager = a.process, a.manager
        time.sleep(1.0)                       # idle for longer than STALE_MAX_AGE
        exit_sent = threading.Event()
        orig_add, orig_wait = shell.stdin.add, shell.service.wait

        def add(value, *args, **kwargs):
            r = orig_add(value, *args, **kwargs)
            if value == "exit":
                exit_sent.set()
            return r

        def wait(timeout=None):
            if exit_sent.is_set():
                time.sleep(0.5)
            return orig_wait(timeout=timeout)
        shell.stdin.add, shell.service.wait = add, wait
        manager.wakeup.go()                   # the periodic review, now
        if not exit_sent.wait(15):
            return out                        # the review did not retire it in time: nothing to observe
        try:
            b, got = run("retire-b", ["bash", "-c", "echo from B; echo more from B; exit 3"])
            if got != ["from B", "more from B"] or b.returncode != 3:
                out.append("C18: the Command made while the pool was retiring an idle shell yielded stdout %r and returncode %r instead "
                           "of ['from B', 'more from B'] and 3%s" % (got, b.returncode, " - it was handed the retiring shell" if b.process is shell else ""))
        except Exception as e:   # noqa
            out.append("C18: the Command made while the pool was retiring an idle shell could not run: %s" % str(e).strip().splitlines()[0][:160])
    except Exception:   # noqa
        pass                                   # the probe relies on attributes of today's code; if they are gone it says nothing
    finally:
        commands.STALE_MAX_AGE = old_age
        try:
            os.rmdir(cwd)
        except OSError:
            pass
    return out


def probe_idle_reuse(Command, Till, mo_threads):
    """history of shell reuse: a shell that sat idle longer than the NEXT Command's output timeout is recycled for a Command
    that is silent for a while; the Command must still get its own lines and status (the idle time of the shell is not silence
    of the new Command)"""
    import time
    out = []

    def run(name, params, timeout):
        c = Command(name, params, cwd="/usr", timeout=timeout)
        got = []
        deadline = Till(seconds=12)
        while not deadline:
            v = c.stdout.pop(till=deadline)
            if v == mo_threads.PLEASE_STOP:
                break
            if v is not None:
                got.append(v)
        try:
            c.join(till=Till(seconds=5))
        except Exception:   # noqa
            pass
        return got, c.returncode

    # (the first Command also writes to stderr: a shell's reading times start 10 s in the future, as a start-up allowance)
    got, rc = run("idle-a", ["bash", "-c", "echo first; echo e >&2"], 20)
    if got != ["first"] or rc != 0:
        return out          # the plain case is reported by the main batch
    time.sleep(3.6)         # the shell is idle, longer than the timeout of the next Command
    got, rc = run("idle-b", ["bash", "-c", "sleep 1.4; echo one; echo two; exit 7"], 3)
    if got != ["one", "two"] or rc != 7:
        out.append("C18: a Command started on a recycled shell that had been idle for 3.6 s (timeout 3 s, first output after 1.4 s) "
                   "yielded stdout %r and returncode %r instead of ['one', 'two'] and 7" % (got, rc))
    return out


def probe_findings(Command, Till, mo_threads):
    """the two inherent weaknesses of in-band framing, demonstrated on the real code (open known findings)"""
    out = []
    # 1. output without a final newline: the marker is glued to the last line, the Command never completes
    c = Command("nonl", ["printf", "abc"], cwd="/tmp", timeout=5)
    got = []
    deadline = Till(seconds=2.5)
    finished = False
    while not deadline:
        v = c.stdout.pop(till=deadline)
        if v == mo_threads.PLEASE_STOP:
            finished = True
            break
        if v is not None:
            got.append(v)
    if not finished or got != ["abc"]:
        out.append({"signature": "C18/output-without-final-newline",
                    "msg": "C18: a command whose output lacks a final newline never completes (got %r, finished=%s): the marker is glued to its last line" % (got, finished)})
    try:
        c.stop()
    except Exception:
        pass
    # 2. a line of the program's own output starting with the marker
    c = Command("fake", ["printf", "a\\n%sx\\n7\\nb\\n" % MARKER], cwd="/", timeout=5)
    got = []
    deadline = Till(seconds=2.5)
    while not deadline:
        v = c.stdout.pop(till=deadline)
        if v == mo_threads.PLEASE_STOP:
            break
        if v is not None:
            got.append(v)
    try:
        c.join(till=Till(seconds=2))
    except Exception:
        pass
    if got != ["a", MARKER + "x", "7", "b"] or c.returncode != 0:
        out.append({"signature": "C18/output-line-starts-with-marker",
                    "msg": "C18: a program that prints a line starting with the marker loses the rest of its output and its status is misread (stdout %r, returncode %r)" % (got, c.returncode)})
    return out


def pool_lines(rng, n_seq):
    """op-sequence differential for LifetimeManager.get_or_create_process / return_process with stub shells"""
    import mo_threads
    from mo_threads import commands, Queue, Signal
    lines, viol = [], []

    class StubProcess(object):
        counter = [0]

        def __init__(self, name, params, cwd=None, env=None, debug=False, shell=False, bufsize=-1, timeout=2.0, startup_timeout=10.0, parent_thread=None):
            self.pid_ = StubProcess.counter[0]
            StubProcess.counter[0] += 1
            self.name = "stub%d" % self.pid_
            self.stopped = Signal()
            self.stdin = Queue("in", silent=True)
            self.stdout = Queue("out", silent=True)
            self.stderr = Queue("err", silent=True)
            self.stdout.add(MARKER)
            self.stdout.add("0")
            self.timeout = timeout

            class St(object):
                last_read = 0
            self.stdout_status = St()
            self.kill_once = lambda: None

        def join(self, *a, **k):
            return self

    orig_process = commands.Process
    orig_till = commands.Till
    commands.Process = StubProcess
    # the stub shells answer at once; the start-up timer must not depend on whether this worker process still runs a timer
    # daemon (an earlier scheduled job stops it, and `Till()` of a disabled daemon is DONE: "did not start within 60 seconds")
    commands.Till = lambda seconds=None, till=None: Signal("never")
    try:
        for _ in range(n_seq):
            StubProcess.counter[0] = 0
            mgr = commands.LifetimeManager.__new__(commands.LifetimeManager)
            mgr.locker = mo_threads.Lock()
            mgr.avail_processes = []
            mgr.inuse_processes = []
            mgr.wakeup = Signal()
            mgr.worker_thread = None
            ops = []
            held = []
            keymap = {}
            for _ in range(rng.randint(1, 12)):
                if held and rng.random() < 0.45:
                    p = held.pop(rng.randrange(len(held)))
                    mgr.return_process(p)
                    ops.append("r%d" % p.pid_)
                else:
                    k = rng.randint(0, 2)
                    p = mgr.get_or_create_process(params=["x"], bufsize=-1, cwd="/k%d" % k, debug=False, env={}, name="n", shell=True, timeout=5)
                    held.append(p)
                    ops.append("g%d" % k)

            def show(lst):
                return ",".join("%s/%d" % (key[0][2:], proc.pid_) for key, proc, _ in lst)
            lines.append("pool %s = avail:%s inuse:%s" % (" ".join(ops), show(mgr.avail_processes), show(mgr.inuse_processes)))
            ids = [proc.pid_ for _, proc, _ in mgr.avail_processes + mgr.inuse_processes]
            if len(ids) != len(set(ids)):
                viol.append("C18: a shell is listed twice in the manager after %s" % ops)
            if sorted(p.pid_ for p in held) != sorted(proc.pid_ for _, proc, _ in mgr.inuse_processes):
                viol.append("C18: shells handed out %s differ from the manager's inuse list after %s" % (sorted(p.pid_ for p in held), ops))
    finally:
        commands.Process = orig_process
        commands.Till = orig_till
    return lines, viol


def run_all(seed, n_pf, n_cmds, n_threads, n_pool, with_findings):
    rng = random.Random(seed)
    t0 = time.time()
    # a worker process runs several of these jobs, and each ends by stopping mo_threads' main thread and timer daemon:
    # without a running daemon `Till(seconds=60)` is DONE and every shell "did not start within 60 seconds"
    import mo_threads
    from mo_threads import till as _till
    if not bool(getattr(_till, "enabled", None)):
        mo_threads.start_main_thread()
    l1, v1, s1 = pf_lines(rng, n_pf)
    l3, v3 = pool_lines(rng, n_pool)
    l2, v2, known, s2 = real_commands(rng, n_cmds, n_threads, with_findings)
    try:
        import mo_threads
        mo_threads.stop_main_thread()
    except BaseException:   # noqa
        pass
    return {"lines": l1 + l2 + l3, "monitor": v1 + v2 + v3, "known": known, "samples": s1 + s2,
            "counts": {"pf": n_pf, "commands": n_cmds, "pool": n_pool}, "wall": time.time() - t0}
