"""C05 / C06 / C20 plugin: M3 trace acceptance + monitors on the real Lock."""
from . import plug
from . import detsched as ds

RULE = {
    "C05": "scenario = 2-5 threads running monitor blocks (enter; set?; while not cond: wait(till?); bare wait?; set?; raise?; exit) on one "
           "real Lock + an environment thread firing the till signals; schedule = seeded random/PCT/sticky walk over every lock "
           "operation of Lock, Signal and OrSignal and every access to Lock.waiting / waiter flags; non-trivial = >=1 pre-emption "
           "inside a Lock method; distinct = (scenario, schedule) hash",
}
RULE["C06"] = RULE["C05"] + "; C06 profile: every condition is eventually made true or its till fired, so any thread left parked is a lost notification"
RULE["C20"] = ("scenario = 1-4 idle consumers (`while not cond: lock.wait()` with cond never true) and mixed C05 scenarios; after external "
               "activity stops the run must become quiescent; a thread re-waiting 12 times with no external event is a livelock; "
               "plus real Queues (silent and not) with 1-3 threads parked in pop() on an empty queue / add() on a full one; a timed "
               "acquire that expires while nothing can move is polling")


class M3(plug.Model):
    name = "m3"
    mode = "TA (trace acceptance)"

    def run(self, sc, chooser, seed):
        from . import m3_lock
        return m3_lock.run_scenario(sc, chooser=chooser, seed=seed)

    def shape(self, sc):
        from . import m3_lock
        return m3_lock.shape(sc)

    def est_steps(self, sc):
        return 60 * len(sc["threads"])

    def relevant(self, prop, r):
        msgs = [m for m in r["monitor"] if m.startswith(prop + ":") or m.startswith("unexpected")]
        known = list(r.get("c20", [])) if prop == "C20" else []
        return msgs, known


MODEL = M3()


class M4C20(plug.Model):
    """C20 on Queue.pop()/add(): the real Queue under the scheduler (M4 harness), monitors for busy waiting"""
    name = "m4"
    mode = "TA (trace acceptance)"

    def run(self, sc, chooser, seed):
        from . import m4_queue
        return m4_queue.run_scenario(sc, chooser=chooser, seed=seed)

    def shape(self, sc):
        from . import m4_queue
        return m4_queue.shape(sc)

    def header(self, sc):
        from . import p_m4
        return p_m4.MODEL.header(sc)

    def est_steps(self, sc):
        return 80 * len(sc["threads"])

    def relevant(self, prop, r):
        msgs = [m for m in r["monitor"] if m.startswith("C20:") or m.startswith("unexpected")]
        return msgs, list(r.get("c20", []))


MODELQ = M4C20()


def genq(rng, prop, job):
    from . import m4_queue
    return m4_queue.gen_c20(rng, join=bool(job.get("join")))


def gen(rng, prop, job):
    from . import m3_lock
    if job.get("hostile"):
        return m3_lock.gen_hostile(rng)
    if job.get("debug"):
        # Lock(debug=True): the same programs with the debug prints on (they read Lock.waiting once more and, without a till,
        # raise inside wait()'s try block): monitors only
        sc = m3_lock.gen_scenario(rng, ("idle" if rng.random() < 0.6 else "mixed") if prop == "C20" else
                                  ("terminating" if rng.random() < 0.5 else "mixed"))
        sc["debug"] = True
        return sc
    if job.get("stress"):
        kind = "stress"
    elif prop == "C20":
        kind = "idle" if rng.random() < 0.5 else "mixed"
    elif prop == "C06":
        kind = "terminating" if rng.random() < 0.7 else "mixed"
    else:
        kind = "mixed"
    return m3_lock.gen_scenario(rng, kind)


def gen_small(rng, prop, job):
    """two or three threads, one block each: for the systematic (context-bounded) exploration"""
    from . import m3_lock
    for _ in range(50):
        sc = m3_lock.gen_scenario(rng, "idle" if (prop == "C20" and rng.random() < 0.4) else "terminating")
        if len(sc["threads"]) <= 3:
            break
    sc["threads"] = [t[:1] for t in sc["threads"][:3]]
    used = set(b["till"] for t in sc["threads"] for b in t if b.get("till") is not None)
    sc["fire"] = [x for x in sc["fire"] if x in used]
    return sc


def make_jobs(prop, tier, seed):
    jobs = plug.std_jobs(prop, tier, seed, "m3", n_quick=16, per_quick=8, schedules=6)
    jobs.extend(plug.line_jobs(prop, tier, seed))
    if tier == "thorough":
        for j in range(16):
            jobs.append({"kind": "pbound", "prop": prop, "seed": seed * 104729 + j, "k": 2, "budget": 2000})
    else:
        jobs.append({"kind": "pbound", "prop": prop, "seed": seed * 104729, "k": 1, "budget": 200})
    # Lock.wait() parks on `waiter | till` and is woken by waiter.go(): the Signal layer (M1) is part of every Lock property
    jobs.extend(plug.m1_layer_jobs(prop, tier, seed))
    if prop in ("C05", "C06", "C20"):
        for j in range(2 if tier == "quick" else 12):
            jobs.append({"kind": "explore", "debug": True, "prop": prop, "seed": seed * 67867967 + j, "scenarios": 8, "schedules": 6, "no_driver": True})
    if prop == "C05":
        for j in range(2 if tier == "quick" else 8):
            jobs.append({"kind": "explore", "hostile": True, "prop": prop, "seed": seed * 2750159 + j, "scenarios": 8, "schedules": 5, "no_driver": True})
    if prop == "C20":
        for j in range(4 if tier == "quick" else 24):
            jobs.append({"kind": "explore", "side": "queue", "prop": prop, "seed": seed * 32452843 + j, "scenarios": 8, "schedules": 6})
        jobs.append({"kind": "explore", "side": "queue", "join": True, "prop": prop, "seed": seed * 15485867 + 1, "scenarios": 6, "schedules": 4,
                     "no_driver": True})
        # the real code on real OS threads: parked waiters and the library's own service threads use no CPU while nothing happens
        jobs.append({"kind": "idle_cpu", "prop": prop, "seed": seed})
        # several threads parked on ONE Signal (the Lock gives every waiter its own): the M1 exploration with waiters only
        for j in range(3 if tier == "quick" else 16):
            jobs.append({"kind": "explore", "side": "signal", "prop": prop, "seed": seed * 86028121 + j, "scenarios": 10, "schedules": 6})
    return jobs


def search_jobs(prop, tier, seed, corr_fail):
    return plug.std_search_jobs(prop, tier, seed, corr_fail) + plug.std_search_jobs(prop, tier, seed + 17, [], extra={"stress": True})


def _is_queue(job):
    if job.get("side") == "queue":
        return True
    rp = (job.get("replay") or {}).get("replay") or job.get("replay") or (job.get("failure") or {}).get("replay") or {}
    return rp.get("model") == "m4"


def _is_signal(job):
    if job.get("side") == "signal":
        return True
    rp = (job.get("replay") or {}).get("replay") or job.get("replay") or (job.get("failure") or {}).get("replay") or {}
    return rp.get("model") == "m1"


def run_idle_cpu(job):
    import json
    import os
    env = dict(os.environ)
    env["PYTHONPATH"] = plug.ds.REPO + os.pathsep + plug.lean_audit.VERIF
    res = {"evaluations": 0, "transitions": 0, "context_switches": 0, "traces_validated": 0, "shapes": {},
           "distinct": [], "corr_fail": [], "mon_fail": [], "known": [], "samples": [], "extra": {}}
    rp = {"model": "c20-idle", "job": {"seed": job.get("seed", 0)}}
    try:
        p = plug.run_group(["/venv/bin/python", "-m", "harness.c20_idle"], plug.ds.REPO, env, 120)
    except Exception as e:   # noqa
        return {"infra_error": "idle-CPU probe could not be started: %r" % (e,)}
    line = [l for l in p.stdout.decode("utf8", "replace").splitlines() if l.startswith("C20IDLE ")]
    if not line:
        return {"infra_error": "idle-CPU probe produced no result"}
    out = json.loads(line[-1][8:])
    res["evaluations"] = len(out["windows"])
    res["shapes"]["idle-cpu"] = len(out["windows"])
    for k, v in out["windows"].items():
        if isinstance(v, (int, float)):
            res["extra"]["idle_cpu_ms_" + k] = int(v * 1000)
    for m in out["viol"]:
        res["mon_fail"].append({"msg": m, "replay": rp, "signature": None})
    return res


def run_job(job):
    if job["kind"] == "idle_cpu":
        return run_idle_cpu(job)
    rp_ = (job.get("replay") or {}).get("replay") or job.get("replay") or (job.get("failure") or {}).get("replay") or {}
    if rp_.get("model") == "c20-idle":
        if job["kind"] == "shrink":
            return {"failure": job["failure"]}
        r = run_idle_cpu({"seed": 0})
        hit = r.get("mon_fail", []) if isinstance(r, dict) else []
        return {"violated": bool(hit), "message": hit[0]["msg"] if hit else "no busy loop: every window used next to no CPU"}
    if job["kind"] == "layer":
        return plug.run_m1_layer(job, "the model of Lock (waiter.go() / both.wait() are single steps there)")
    r = plug.m1_layer_replay(job)
    if r is not None:
        return r
    if _is_signal(job):
        from . import p_m1
        res = p_m1.run_job(dict(job, prop="C20"))
        if isinstance(res, dict) and "known" not in res and "violated" not in res and "failure" not in res and "infra_error" not in res:
            res["known"] = []
        return res
    if job["kind"] == "pbound":
        return plug.pbound_job(MODEL, gen_small, job)
    if _is_queue(job):
        return plug.std_job(MODELQ, genq, job)
    return plug.std_job(MODEL, gen, job)


def shrink(prop, failure):
    if (failure.get("replay") or {}).get("model") in ("m1", "m1-layer", "c20-idle"):
        return failure
    if (failure.get("replay") or {}).get("model") == "m4":
        return plug.std_shrink(MODELQ, prop, failure)
    return plug.std_shrink(MODEL, prop, failure)


def trusted_base(prop):
    return [
        "Lean 4.33 kernel; axioms of every theorem audited to be within {propext, Classical.choice, Quot.sound}",
        "statements in lean/MoThreads/Props/%s.lean" % prop,
        "hand-written model lean/MoThreads/Model/Monitor.lean, tied to /repo/mo_threads/lock.py by trace acceptance of real "
        "executions (harness/m3_lock.py): every acquire/release of Lock.lock, every read/write of Lock.waiting (with the value "
        "read), every waiter.go(), every wait() return value must be a step the model takes with the same label",
        "layering: waiter.go() and both.wait() are atomic in M3; justified by the M1 theorems (C01) and exercised with the real "
        "Signal/OrSignal interleaved at lock granularity, but the substitution meta-theorem is not proved in Lean",
        "modelled, not verified: CPython list.pop/insert/remove atomicity, `with` calling __exit__ on exceptions, _thread.lock",
    ]


def assumptions(prop):
    a = ["monitor discipline of callers: wait()/exit only inside the block; a declared wait condition is false when wait() is called",
         "timeouts are signals fired by the environment at arbitrary points"]
    if prop == "C20":
        a.append("C20 is violated by the unchanged tree for >=2 re-waiting threads on one Lock (open known finding); the theorems "
                 "proved are the parked-is-disabled lemmas, the single-waiter case and the negation witness")
    return a


for _k in list(RULE):      # RULE-EXTRA: what was added to the exploration after the rounds of seeded changes
    RULE[_k] += '; plus: the M1 exploration as a LAYER, HOSTILE lock programs (a block held for 61 s..1 h, wait(till=<not a signal>), a wait for the mutex interrupted by an exception, a handler entering the lock while its thread is suspended in wait()), debug-mode locks, line-mode jobs; C20 also: a wall-clock idle-CPU probe on the real code'
