"""C19 plugin: M10 trace acceptance + monitors on the real Python proxy (stub worker, deterministic scheduler), plus
sampled round trips through the real python_worker.py child process."""
import hashlib
import json
import os
import subprocess

from . import plug
from . import lean_audit

RULE = {
    "C19": "(a) scenario = 1-4 caller threads x 1-3 proxy calls each (echo returning one of 12 scripted JSON results, 6 of them "
           "falsy; remote failure; set/get; answers preceded by a log line), real Python._execute/_watch_stdout/set/get/__getattr__, "
           "real Queue/Lock/Signal underneath, scripted FIFO worker, deterministic scheduler; non-trivial = >=1 pre-emption; "
           "distinct = (scenario, schedule) hash.  (b) real round trips: random JSON values (falsy-biased, nested, awkward strings, "
           "big integers) through the real proxy and the real python_worker.py child: positional and keyword calls, set/get, remote "
           "exceptions, functions that log before answering, 4 concurrent callers x 6 calls, each with a deadline.  (c) worker side: "
           "the real python_worker.command_loop on 1-5 scripted requests racing with 0-4 writes of its logging thread under the "
           "deterministic scheduler (every STDOUT.write is a pre-emption point); every request must be answered by exactly one "
           "whole JSON line, in order",
}


class M10(plug.Model):
    name = "m10"
    mode = "TA (trace acceptance, hidden hand-offs eager)"

    def run(self, sc, chooser, seed):
        from . import m10_python
        return m10_python.run_scenario(sc, chooser=chooser, seed=seed)

    def shape(self, sc):
        from . import m10_python
        return m10_python.shape(sc)

    def est_steps(self, sc):
        return 600


class M10W(plug.Model):
    """the worker side: real python_worker.command_loop racing with its logging thread (monitor only, no Lean trace)"""
    name = "m10w"
    mode = "monitor"

    def run(self, sc, chooser, seed):
        from . import m10_python
        return m10_python.run_worker_scenario(sc, chooser=chooser, seed=seed)

    def shape(self, sc):
        from . import m10_python
        return m10_python.worker_shape(sc)

    def est_steps(self, sc):
        return 80


MODEL = M10()
MODELW = M10W()


def genw(rng, prop, job):
    from . import m10_python
    return m10_python.gen_worker_scenario(rng)


def gen(rng, prop, job):
    from . import m10_python
    return m10_python.gen_scenario(rng)


def make_jobs(prop, tier, seed):
    jobs = plug.std_jobs(prop, tier, seed, "m10", n_quick=14, per_quick=5, schedules=4)
    jobs.extend(plug.line_jobs(prop, tier, seed))
    for j in range(4 if tier == "quick" else 32):
        jobs.append({"kind": "explore", "side": "worker", "prop": prop, "seed": seed * 15485863 + j, "scenarios": 10, "schedules": 8, "no_driver": True})
    n = 2 if tier == "quick" else 12
    for j in range(n):
        jobs.append({"kind": "real", "prop": prop, "seed": seed * 7919 + j, "calls": 60 if tier == "quick" else 150})
    return jobs


def search_jobs(prop, tier, seed, corr_fail):
    jobs = plug.std_search_jobs(prop, tier, seed, corr_fail)
    for j in range(8):
        jobs.append({"kind": "explore", "side": "worker", "prop": prop, "seed": 31000 + seed * 15485863 + j, "scenarios": 12, "schedules": 12, "no_driver": True})
    for j in range(4):
        jobs.append({"kind": "real", "prop": prop, "seed": 99000 + seed * 7919 + j, "calls": 120})
    return jobs


def run_real(job):
    env = dict(os.environ)
    env["PYTHONPATH"] = plug.ds.REPO + os.pathsep + lean_audit.VERIF
    res = {"evaluations": 0, "transitions": 0, "context_switches": 0, "traces_validated": 0, "shapes": {},
           "distinct": [], "corr_fail": [], "mon_fail": [], "known": [], "samples": [], "extra": {}}
    rp = {"model": "m10-real", "job": {"seed": job["seed"], "calls": job["calls"]}}
    try:
        p = plug.run_group(["/venv/bin/python", "-m", "harness.m10_real", str(job["seed"]), str(job["calls"])], plug.ds.REPO, env, 240)
    except Exception as e:   # noqa
        return {"infra_error": "real round trips could not be started: %r" % (e,)}
    line = [l for l in p.stdout.decode("utf8", "replace").splitlines() if l.startswith("M10REAL ")]
    if not line:
        res["mon_fail"].append({"msg": "C19: the real proxy/worker session (seed %d) did not finish within 240 s" % job["seed"], "replay": rp, "signature": None})
        return res
    out = json.loads(line[-1][8:])
    res["evaluations"] = out["cases"]
    res["extra"]["real_round_trips"] = out["cases"]
    for k, v in out["kinds"].items():
        res["shapes"]["real:" + k] = v
    res["distinct"] = [hashlib.sha1(("real %d %d" % (job["seed"], i)).encode()).hexdigest()[:16] for i in range(out["cases"])]
    for m in out["viol"]:
        res["mon_fail"].append({"msg": m, "replay": rp, "signature": None})
    seen = set()
    for k in out["known"]:
        if k["signature"] not in seen:
            seen.add(k["signature"])
            res["known"].append({"msg": k["msg"], "signature": k["signature"], "replay": rp})
    return res


def run_job(job):
    if job["kind"] == "real":
        return run_real(job)
    if job["kind"] == "replay":
        rp = job["replay"].get("replay") or job["replay"]
        if rp.get("model") == "m10-real":
            res = run_real(dict(rp["job"], prop=job["prop"], kind="real"))
            if "infra_error" in res:
                return res
            sig = job["replay"].get("signature")
            hit = res["mon_fail"] or [k for k in res["known"] if sig is None or k["signature"] == sig]
            return {"violated": bool(hit), "message": hit[0]["msg"] if hit else "every real round trip returned its own value"}
        if rp.get("model") == "m10w":
            res = plug.run_batch(MODELW, job["prop"], [(rp["scenario"], None, 0, rp["choices"])], use_driver=False)
            if "infra_error" in res:
                return res
            hit = res["mon_fail"]
            return {"violated": bool(hit), "message": hit[0]["msg"] if hit else "every request was answered by one whole line, in order"}
    if job.get("side") == "worker":
        return plug.std_job(MODELW, genw, job)
    if job["kind"] == "shrink" and (job["failure"].get("replay") or {}).get("model") in ("m10w", "m10-real"):
        return {"failure": job["failure"]}
    return plug.std_job(MODEL, gen, job)


def trusted_base(prop):
    return [
        "Lean 4.33 kernel; axioms of every theorem audited to be within {propext, Classical.choice, Quot.sound}",
        "statements in lean/MoThreads/Props/C19.lean",
        "hand-written model lean/MoThreads/Model/PyProxy.lean, tied to Python._execute/_watch_stdout in /repo/mo_threads/python.py by "
        "trace acceptance of real executions (harness/m10_python.py): every read and write of done/response/error, the proxy lock, "
        "the worker's request/reply hand-offs, the value returned or the exception raised by every call",
        "assumed about the worker (python_worker.py): it answers every request line with exactly one out/err line, in order, each "
        "written atomically; checked on the real command_loop under the deterministic scheduler (monitor, harness/m10_python.run_worker_scenario) "
        "and by sampling real round trips (harness/m10_real.py), not proved",
        "modelled, not verified: JSON encoding/decoding (mo_json, json), the Process pipes (C17), Queue/Lock/Signal (C01-C09)",
    ]


def assumptions(prop):
    return ["the worker stays alive and answers every request (one line per request, FIFO)",
            "values are compared after mo_dots.from_data; what mo_json does to \"\" / null members / integers beyond 2**53 is an open known finding"]
