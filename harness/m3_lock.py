"""
M3 correspondence (trace acceptance) + monitors for C05/C06/C20: the REAL mo_threads.lock.Lock (with the
real Signal/OrSignal underneath) under the deterministic scheduler, against Model/Monitor.lean.
"""
from . import detsched as ds


def gen_scenario(rng, kind="mixed"):
    """threads: list of blocks; a block =
         {pre:(i,v)|None, loop:(i,v)|None, till:x|None, bare:int, post:(i,v)|None, raises:bool}
       env: order in which till signals are fired (subset)"""
    nvars = rng.randint(1, 2)
    threads = []
    tills = 0
    if kind == "idle":            # C20: consumers whose condition never becomes true
        n = rng.randint(1, 4)
        for _ in range(n):
            threads.append([{"pre": None, "loop": (0, 1), "till": None, "bare": 0, "post": None, "raises": False}])
        return {"threads": threads, "fire": [], "ntills": 0, "kind": "idle"}
    nloop = rng.randint(1, 3) if kind != "stress" else rng.randint(3, 5)
    nset = rng.randint(1, 2)
    conds = []
    for _ in range(nloop):
        i = rng.randrange(nvars)
        v = rng.randint(1, 2)
        till = None
        if rng.random() < (0.4 if kind != "stress" else 0.6):
            till = tills
            tills += 1
        conds.append((i, v))
        blk = {"pre": None, "loop": (i, v), "till": till, "bare": 0,
               "post": ((rng.randrange(nvars), rng.randint(1, 3)) if rng.random() < 0.3 else None),
               "raises": rng.random() < 0.15}
        if till is not None and rng.random() < 0.4:
            blk["persist"] = rng.randint(1, 3)
        ops = [blk]
        if rng.random() < 0.2:
            ops.append({"pre": (rng.randrange(nvars), rng.randint(1, 3)), "loop": None, "till": None, "bare": 0, "post": None, "raises": False})
        threads.append(ops)
    # setters: make sure (with high probability) every condition is eventually satisfied
    need = {}
    for (i, v) in conds:
        need[i] = max(need.get(i, 0), v)
    items = list(need.items())
    rng.shuffle(items)
    for k in range(nset):
        ops = []
        mine = items[k::nset]
        for (i, v) in mine:
            if rng.random() < 0.9 or kind == "terminating":
                ops.append({"pre": (i, v if rng.random() < 0.8 or kind == "terminating" else max(v - 1, 0)), "loop": None, "till": None,
                            "bare": 0, "post": None, "raises": rng.random() < 0.1})
        if rng.random() < 0.25:
            till = None
            if rng.random() < 0.7:
                till = tills
                tills += 1
                ops.append({"pre": None, "loop": None, "till": till, "bare": 1, "post": None, "raises": False})
        if ops:
            threads.append(ops)
    fire = [x for x in range(tills) if rng.random() < 0.8 or kind in ("terminating", "stress")]
    rng.shuffle(fire)
    return {"threads": threads, "fire": fire, "ntills": tills, "kind": kind}


def gen_hostile(rng):
    """C05 outside the model (monitors only): a thread that stays inside the block for more than a minute of virtual time
    (a Lock that gives up waiting for its mutex lets a second thread in), and wait() called with something that is not a
    signal (it raises: the caller is still inside its block and must still hold the mutex)"""
    threads = []
    if rng.random() < 0.6:
        threads.append([{"pre": None, "loop": None, "till": None, "bare": 0, "post": (0, 1), "raises": False,
                         "hold": rng.choice([61.0, 75.0, 130.0, 3700.0])}])
    if rng.random() < 0.6 or not threads:
        threads.append([{"pre": None, "loop": None, "till": None, "bare": 0, "post": (0, 1), "raises": False, "badtill": rng.choice([0.5, 3, "soon"])}])
    if rng.random() < 0.5:
        # a thread whose wait for the lock is interrupted by an exception (what a signal handler that raises does to the main
        # thread while it is blocked in acquire()): it never got the mutex, so it has nothing to give back
        threads.append([{"pre": (1, 1), "loop": None, "till": None, "bare": 0, "post": None, "raises": False, "interrupt": True}])
        threads.append([{"pre": None, "loop": None, "till": None, "bare": 0, "post": (1, 2), "raises": False, "hold": 0.5}])
    if rng.random() < 0.5:
        # a thread that, while it is suspended in wait() (the mutex is free), runs a handler that enters the lock itself (what a
        # signal handler does on the main thread): the handler needs the mutex like anybody else
        threads.append([{"pre": None, "loop": (0, 1), "till": None, "bare": 0, "post": None, "raises": False, "handler": True}])
    for _ in range(rng.randint(1, 3)):
        threads.append([{"pre": (0, 1), "loop": None, "till": None, "bare": 0, "post": None, "raises": rng.random() < 0.2}])
    rng.shuffle(threads)
    return {"threads": threads, "fire": [], "ntills": 0, "kind": "hostile"}


def shape(sc):
    def b(blk):
        s = ""
        if blk["pre"]:
            s += "s"
        if blk["loop"]:
            s += "L" + ("t" if blk["till"] is not None else "") + ("r%d" % blk["persist"] if blk.get("persist") else "")
        if blk["bare"]:
            s += "w" + ("t" if blk["till"] is not None else "")
        if blk["post"]:
            s += "p"
        if blk["raises"]:
            s += "!"
        if blk.get("hold"):
            s += "H"
        if blk.get("badtill") is not None:
            s += "B"
        if blk.get("interrupt"):
            s += "I"
        if blk.get("handler"):
            s += "S"
        return s or "-"
    return "%s:" % sc.get("kind", "") + "/".join(",".join(b(x) for x in t) for t in sc["threads"]) + ":f%d" % len(sc["fire"])


class Boom(Exception):
    pass


def run_scenario(sc, chooser=None, seed=0, max_steps=3000, rewait_limit=12):
    ds.install()
    ds.reset_globals()
    from mo_threads import lock as lockmod, signals
    sched = ds.Sched(chooser=chooser, seed=seed, max_steps=max_steps)
    RealSignal = signals.Signal
    cur_w = {}
    st = {"nextw": 0, "viol": [], "inside": 0, "sigma": {}, "external": 0, "rewaits": {}, "livelock": None,
          "wait_calls": 0, "handler": {}}

    class HandlerSignal(RealSignal):
        """the waiter signal of a thread that runs a handler while it is suspended in wait(): the handler enters the lock"""
        __slots__ = ()

        def wait(self, *a, **k):
            vt = sched.me()
            if vt is not None and st["handler"].pop(vt.name, None):
                ti = int(vt.name[1:])
                with Noted(ti, handler=True):
                    sched.yield_point(("handler", ti))        # inside the lock for a moment
                    sched.yield_point(("handler", ti))
            return RealSignal.wait(self, *a, **k)

    def signal_factory(*a, **k):
        vt0 = sched.me()
        sig = (HandlerSignal if (vt0 is not None and st["handler"].get(vt0.name)) else RealSignal)(*a, **k)
        vt = sched.me()
        if vt is not None and vt.name in cur_w:
            sched.trace(sig, "w%d" % cur_w[vt.name])
        return sig

    old_factory = lockmod.Signal
    lockmod.Signal = signal_factory
    old_alloc = lockmod._allocate_lock

    def alloc_lock():
        # allocating a mutex from inside a scheduled thread (the code as it stands does it in Lock.__init__ only, before any
        # thread runs) is a pre-emption point: a mutex created lazily on first use is exposed to the race it invites
        if sched.me() is not None and not sched.abort:
            sched.yield_point(("alloc",))
        return old_alloc()
    lockmod._allocate_lock = alloc_lock
    try:
        lk = lockmod.Lock("LK", debug=bool(sc.get("debug")))
        # the mutex is the one Lock.__init__ allocates (a SchedLock: detsched patches the allocator); it is not replaced, so
        # that a Lock which allocates its mutex differently (late, twice) is exercised as written
        sched.trace(lk, "LK")
        if getattr(lk, "lock", None) is not None:
            sched.tag(lk.lock, "M")
        tills = []
        for x in range(sc["ntills"]):
            t = RealSignal("T%d" % x)
            sched.trace(t, "T%d" % x)
            tills.append(t)
        sigma = st["sigma"]

        class Noted(object):
            def __init__(self, ti, handler=False):
                self.ti = ti
                self.handler = handler

            def __enter__(self):
                sched.note("call", self.ti, "enter")
                lk.__enter__()
                st["inside"] += 1
                if st["inside"] > 1:
                    st["viol"].append("C05: two threads inside the same `with lock` (thread %d entered)" % self.ti)
                st["external"] += 1
                return lk

            def __exit__(self, a, b, c):
                if sched.abort:
                    return False      # the run is being torn down: not part of the trace
                st["inside"] -= 1
                st["external"] += 1
                sched.note("call", self.ti, "exit")
                return lk.__exit__(a, b, c)

        def do_wait(ti, cond, till):
            vt = sched.me()
            w = st["nextw"]
            st["nextw"] += 1
            cur_w[vt.name] = w
            st["wait_calls"] += 1
            sched.note("call", ti, "wait", ("%d:%d" % tuple(cond)) if cond else "-", till if till is not None else "-")
            st["inside"] -= 1
            ext_before = st["external"]
            parked_before = [x for x in (ds.raw(lk, "waiting") or []) if not ds.raw(x, "_go")]
            r = lk.wait(till=(tills[till] if till is not None else None))
            if sched.abort:
                return r
            if parked_before and not any(ds.raw(x, "_go") for x in parked_before):
                st["viol"].append("C06: thread %d waited again but did not pass the baton on: %d thread(s) were parked in wait(), none was "
                                  "signalled (they stay parked although the lock was, or should have been, released)" % (ti, len(parked_before)))
            st["inside"] += 1
            if st["inside"] > 1:
                st["viol"].append("C05: thread %d returned from wait() while another thread is inside the block" % ti)
            if lk.lock is None or lk.lock.owner is not vt or not lk.lock.held:
                st["viol"].append("C05: wait() returned on thread %d without holding the lock" % ti)
            sched.note("ret", ti, "wait", bool(r))
            if not r and not (till is not None and bool(ds.raw(tills[till], "_go"))):
                st["viol"].append("C06: wait() returned False on thread %d although its timeout has not fired" % ti)
                if st["external"] == ext_before:
                    st["viol"].append("C20: thread %d came back from Lock.wait() although nothing had happened: it was not signalled, "
                                      "no timeout fired, nobody entered or left the lock" % ti)
            # C20: a thread that keeps re-waiting while nothing external happens
            if st["external"] == ext_before:
                n = st["rewaits"].get(ti, 0) + 1
                st["rewaits"][ti] = n
                if n >= rewait_limit and st["livelock"] is None:
                    st["livelock"] = ti
            else:
                st["rewaits"][ti] = 0
            return r

        def setv(ti, iv):
            i, v = iv
            sched.note("call", ti, "set", i, v)
            sigma[i] = v
            st["external"] += 1

        def body(ti, blocks):
            def run():
                for blk in blocks:
                    if blk.get("interrupt"):
                        sched.me().inject_exc = Boom()           # its wait for the mutex will be interrupted, if it has to wait
                    if blk.get("handler"):
                        st["handler"][sched.me().name] = True
                    try:
                        with Noted(ti):
                            if blk["pre"]:
                                setv(ti, blk["pre"])
                            if blk.get("hold"):
                                sched.vsleep(blk["hold"])          # stays inside the block, holding the lock
                                if lk.lock is None or lk.lock.owner is not sched.me() or not lk.lock.held:
                                    st["viol"].append("C05: thread %d is inside its block but no longer owns the mutex" % ti)
                            if blk.get("badtill") is not None:
                                try:
                                    lk.wait(till=blk["badtill"])
                                    st["viol"].append("unexpected: wait(till=%r) did not raise" % (blk["badtill"],))
                                except Boom:
                                    raise
                                except BaseException as cause:
                                    if isinstance(cause, ds.SchedAbort):
                                        raise
                                if lk.lock is None or lk.lock.owner is not sched.me() or not lk.lock.held:
                                    st["viol"].append("C05: wait() raised on thread %d and left it inside its block without the "
                                                      "mutex" % ti)
                            if blk["loop"]:
                                i, v = blk["loop"]
                                again = blk.get("persist", 0)     # a loop that keeps its deadline: re-waits after a timeout
                                while sigma.get(i, 0) < v:
                                    if not do_wait(ti, (i, v), blk["till"]):
                                        if again <= 0:
                                            break
                                        again -= 1
                            for _ in range(blk["bare"]):
                                do_wait(ti, None, blk["till"])
                            if blk["post"]:
                                setv(ti, blk["post"])
                            if blk["raises"]:
                                raise Boom()
                    except Boom:
                        if lk.lock is not None and lk.lock.held and lk.lock.owner is sched.me():
                            st["viol"].append("C05: exception inside the block did not release the lock (thread %d)" % ti)
            return run

        for ti, blocks in enumerate(sc["threads"]):
            sched.spawn("t%d" % ti, body(ti, blocks))

        def env():
            for x in sc["fire"]:
                tills[x].go()
                st["external"] += 1
        if sc["fire"]:
            sched.spawn("env", env)

        def on_step(s, vt):
            if st["livelock"] is not None:
                s.max_steps = min(s.max_steps, s.steps)   # stop the run: livelock detected

        sched.on_step = on_step
        outcome = sched.run()
    finally:
        lockmod.Signal = old_factory
        lockmod._allocate_lock = old_alloc

    stuck = sorted(int(vt.name[1:]) for vt in sched.stuck if vt.name != "env")
    lines = to_lines(sched.events)
    if st["livelock"] is not None:
        outcome = "bound"
    lines.append(" ".join(["end", outcome] + [str(t) for t in stuck]))

    viol = st["viol"]
    known = []
    sigma = st["sigma"]
    viol.extend(baton_monitor(lines))
    if outcome == "stuck":
        # every stuck looper must have a false condition and an unfired till
        for ti in stuck:
            for blk in sc["threads"][ti]:
                if blk["loop"]:
                    i, v = blk["loop"]
                    if sigma.get(i, 0) >= v:
                        viol.append("C06: thread %d is parked in `while not cond: lock.wait()` although cond (s%d>=%d) holds and the lock is free (lost notification)" % (ti, i, v))
                    if blk["till"] is not None and blk["till"] in sc["fire"]:
                        viol.append("C06: thread %d stays parked although its timeout fired" % ti)
    if outcome == "bound":
        n_wait = sum(1 for ti in stuck for blk in sc["threads"][ti] if blk["loop"])
        msg = ("C20: threads %s keep waking one another in Lock.wait() although nothing happens "
               "(no state change, no timeout, no enter/exit): %d wait() calls, %d steps" % (stuck, st["wait_calls"], sched.steps))
        sig = "C20/two-or-more-waiters-on-one-lock" if n_wait >= 2 else "C20/single-waiter-spins"
        known.append({"msg": msg, "signature": sig})
    for who, name, clock in sched.timed_wakeups:
        viol.append("C20: thread %s came back from a timed acquire of %s although nothing had happened (polling instead of parking)" % (who, name))
    for vt in sched.vts:
        if vt.exc is not None and not isinstance(vt.exc, Boom):
            viol.append("unexpected exception in %s: %r" % (vt.name, vt.exc))
    return {"lines": lines, "outcome": outcome, "monitor": viol, "c20": known, "choices": list(sched.choices), "cand_counts": list(sched.cand_counts),
            "steps": sched.steps, "switches": sched.context_switches, "stuck": stuck, "wait_calls": st["wait_calls"]}


def to_lines(events):
    lines = []

    def ids(v):
        if v is None:
            return "[]"
        out = []
        for x in v:
            out.append(str(x)[1:] if isinstance(x, str) and x.startswith("w") else "?" + str(x))
        return "[" + ",".join(out) + "]"

    for ev in events:
        if ev[0] == "-":
            if ev[1] == "note":
                lines.append(" ".join(str(w) for w in ev[2:]))
            continue
        who = ev[0]
        kind = ev[1]
        if kind in ("acq", "rel"):
            if ev[2] == "M" and who != "env":
                lines.append("step %s %s M" % (who[1:], kind))
            continue
        if kind in ("R", "W"):
            tag, slot = ev[2], ev[3]
            if tag == "LK" and slot == "waiting":
                lines.append("step %s %s waiting %s" % (who[1:], kind, ids(ev[4])))
            elif kind == "W" and slot == "_go":
                if tag.startswith("w"):
                    lines.append("step %s fire %s" % (who[1:], tag[1:]))
                elif tag.startswith("T"):
                    lines.append("env fire %s" % tag[1:])
            continue
    return lines


def baton_monitor(lines):
    """C06, read off the recorded trace (independent of the Lean model): every release must resume one
    thread blocked in wait() if there is one.  A `fire w` whose owner has already returned from that
    wait() resumes nobody; if at that moment another thread is blocked in wait() (registered, neither
    signalled nor timed out) the notification was absorbed."""
    out = []
    owner = {}        # waiter id -> thread
    active = {}       # thread -> (waiter id, till) while inside wait()
    listed = set()    # waiter ids that were put on the list (thread released inside wait)
    fired = set()
    tills = set()
    nextw = 0
    for ln in lines:
        ws = ln.split()
        if ws[0] == "call" and ws[2] == "wait":
            owner[nextw] = ws[1]
            active[ws[1]] = (nextw, ws[4])
            nextw += 1
        elif ws[0] == "ret" and ws[2] == "wait":
            active.pop(ws[1], None)
        elif ws[0] == "env" and ws[1] == "fire":
            tills.add(ws[2])
        elif ws[0] == "step" and ws[2] == "rel":
            a = active.get(ws[1])
            if a is not None:
                listed.add(a[0])
        elif ws[0] == "step" and ws[2] == "fire":
            w = int(ws[3])
            o = owner.get(w)
            cur = active.get(o)
            if cur is None or cur[0] != w:
                blocked = [t for t, (w2, tl) in active.items() if w2 in listed and w2 not in fired and tl not in tills and t != ws[1]]
                if blocked:
                    out.append("C06: thread %s released the lock and signalled waiter %d whose wait() had already returned (absorbed "
                               "notification) while thread(s) %s are blocked in wait()" % (ws[1], w, blocked))
            fired.add(w)
    return out
