"""
M8 correspondence + monitors for C17: the REAL mo_threads.processes.Process (its reader, writer and monitor threads as
real mo_threads.Thread objects, real Queue/Signal/Till, real timer daemon on a virtual clock) around a scripted
`subprocess.Popen` stub, under the deterministic scheduler, against Model/ProcessIO.lean.

The child is a virtual thread that writes whole lines to its two pipes and then exits; its pipes reach end-of-file
exactly when it exits (or is killed).  Every pipe read, queue add/close, please_stop trigger, monitor loop test,
wait() outcome, kill and the result of join() are events.
"""
import subprocess as real_subprocess
import sys

from . import detsched as ds

KILLED = 1000      # what the MODEL calls the status of a killed child
REAL_KILLED = -9   # what Popen reports for it (a child ended by signal N has returncode -N)


def mstat(x):
    """a real status in the model's vocabulary: killed -> KILLED, ended by its own signal N -> 128+N (what a shell would say)"""
    if x == REAL_KILLED:
        return KILLED
    return 128 - x if x < 0 else x

TEXTS = ["", "x", "two words", "trail   ", "  lead", "tab\t", "{}"]


def gen_scenario(rng):
    n = rng.choice([0, 0, 1, 2, 3, 4, 6])
    chunks = []
    for i in range(n):
        chunks.append([0 if rng.random() < 0.65 else 1, rng.randrange(len(TEXTS)), rng.choice([0, 0, 0, 0.05, 0.3])])
    return {"chunks": chunks, "status": rng.choice([0, 0, 0, 1, 3, 255, -15, -11]), "exit_pause": rng.choice([0, 0, 0.02, 0.4, 1.5]),
            "timeout": rng.choice([0.8, 5.0, 5.0]), "user_stop": rng.choice([None, None, None, 0.0, 0.1, 0.6]),
            "consumer": rng.choice(["after", "after", "during"])}


def shape(sc):
    return "n%d:s%d:p%s:t%s:u%s" % (len(sc["chunks"]), sc["status"], sc["exit_pause"], sc["timeout"], sc["user_stop"])


def run_scenario(sc, chooser=None, seed=0, max_steps=60000):
    ds.install()
    ds.reset_globals()
    from mo_threads import threads, till as tillmod, signals, queues, processes
    sched = ds.Sched(chooser=chooser, seed=seed, max_steps=max_steps, horizon=12.0)
    st = {"viol": [], "written": {0: [], 1: []}, "abandoned": set(), "killed": False, "join": None, "got": {0: [], 1: []},
          "closed_at": {}, "exited_at": None, "join_at": None, "user_stop": False}
    box = {}

    def who():
        vt = sched.me()
        n = vt.name if vt is not None else "?"
        if n.endswith(" stdout"):
            return "r0"
        if n.endswith(" stderr"):
            return "r1"
        if n.endswith(" monitor"):
            return "mon"
        if n.endswith(" stdin"):
            return "wr"
        return n

    class Pipe(object):
        def __init__(self, svc, k):
            self.svc, self.k, self.buf, self.closed = svc, k, [], False

        def readline(self):
            sched.wait_cond(lambda: bool(self.buf) or self.svc.exited is not None)
            sched.yield_point(("pipe", "read", self.k))
            if self.buf:
                i, data = self.buf.pop(0)
                sched.emit("m8", "read", self.k, i)
                return data
            sched.emit("m8", "read", self.k, "eof")
            return b""

        def write(self, b):
            return len(b)

        def flush(self):
            pass

        def close(self):
            self.closed = True

    class FakePopen(object):
        def __init__(self, params, **kw):
            self.pid = 4242
            self.exited = None
            self._rc = None
            self.stdin, self.stdout, self.stderr = Pipe(self, 2), Pipe(self, 0), Pipe(self, 1)
            box["svc"] = self

        @property
        def returncode(self):
            return self._rc

        def poll(self):
            if self.exited is not None:
                self._rc = self.exited
            return self._rc

        def wait(self, timeout=None):
            t0 = sched.clock
            sched.wait_cond(lambda: self.exited is not None or (timeout is not None and sched.clock >= t0 + timeout))
            sched.yield_point(("svc", "wait"))
            if self.exited is not None:
                self._rc = self.exited
                sched.emit("m8", "wait", "reaped", mstat(self.exited))
                return self._rc
            sched.emit("m8", "wait", "timeout")
            raise real_subprocess.TimeoutExpired("stub", timeout)

        def kill(self):
            # CPython's Popen.send_signal polls first and does nothing for a child that has been reaped
            sched.yield_point(("svc", "kill"))
            self.poll()
            if self._rc is not None:
                sched.emit("m8", "kill", "late")
                return
            self.exited = REAL_KILLED
            st["killed"] = True
            st["exited_at"] = sched.steps
            sched.emit("m8", "kill", "killed")

    class SubprocessShim(object):
        PIPE = real_subprocess.PIPE
        TimeoutExpired = real_subprocess.TimeoutExpired
        Popen = FakePopen
    old_sub = processes.subprocess
    processes.subprocess = SubprocessShim
    old_now = processes.unix_now
    processes.unix_now = lambda: 1000.0 + sched.clock

    RealSignal = signals.Signal

    class PSignal(RealSignal):
        """processes.py's Signal: `while not please_stop` in the monitor is logged; please_stop / stopped are traced"""
        __slots__ = ()

        def __init__(self, name=None):
            RealSignal.__init__(self, name)
            if name and name.startswith("please stop for"):
                sched.trace(self, "PS")
            elif name and name.startswith("stopped signal"):
                sched.trace(self, "ST")

        def __bool__(self):
            v = ds.raw(self, "_go")
            if sys._getframe(1).f_code.co_name == "_monitor" and sched.names.get(id(self)) == "PS":
                s = ds.CUR
                if s is not None and s.me() is not None:
                    s.yield_point(("Rps", self))
                    v = ds.raw(self, "_go")
                    s.emit("m8", "mtest", bool(v))
            return v
    old_sig = processes.Signal
    processes.Signal = PSignal

    RealQueue = queues.Queue

    class PQueue(RealQueue):
        def add(self, value, *a, **k):
            r = RealQueue.add(self, value, *a, **k)
            kk = box.get("qk", {}).get(id(self))
            if kk is not None and sys._getframe(1).f_code.co_name == "_reader":
                sched.emit("m8", "add", kk, value)
                st["got"][kk].append(value)
            return r

        def close(self):
            kk = box.get("qk", {}).get(id(self))
            fn = sys._getframe(1).f_code.co_name
            if kk is not None and fn in ("_reader", "_monitor"):
                sched.yield_point(("queue", "close", kk))
                if fn == "_monitor":
                    st["abandoned"].add(kk)
                sched.emit("m8", "close", kk)
                st["closed_at"].setdefault(kk, len(st["got"][kk]))
            return RealQueue.close(self)
    old_queue = processes.Queue
    processes.Queue = PQueue

    orig_shim_start = ds.ShimThread.start

    def shim_start(self):
        if self.name == "timers daemon":
            self._verif_background = True
            self._verif_timekeeper = True
        return orig_shim_start(self)
    ds.ShimThread.start = shim_start

    def child():
        svc = box["svc"]
        for i, (k, ti, pause) in enumerate(sc["chunks"]):
            if pause:
                sched.vsleep(pause)
            if svc.exited is not None:
                return
            sched.yield_point(("child", "write", k))
            if svc.exited is not None:
                return
            (svc.stdout if k == 0 else svc.stderr).buf.append((i, (TEXTS[ti] + "\n").encode("utf8")))
            st["written"][k].append(TEXTS[ti].rstrip())
            sched.emit("m8", "write", k, i)
        if sc["exit_pause"]:
            sched.vsleep(sc["exit_pause"])
        if svc.exited is not None:
            return
        sched.yield_point(("child", "exit"))
        if svc.exited is not None:
            return
        svc.exited = sc["status"]
        st["exited_at"] = sched.steps
        sched.emit("m8", "exit", mstat(sc["status"]))

    def main_body():
        threads.start_main_thread()
        p = processes.Process("p", ["prog"], timeout=sc["timeout"], startup_timeout=sc["timeout"])
        box["p"] = p
        box["qk"] = {id(p.stdout): 0, id(p.stderr): 1}
        sched.spawn("child", child, background=True)
        if sc["user_stop"] is not None:
            if sc["user_stop"]:
                tillmod.Till(seconds=sc["user_stop"]).wait()
            st["user_stop"] = True
            sched.note("userstop")
            p.stop()
        consumed = {0: [], 1: []}
        if sc["consumer"] == "during":
            for line in p.stdout:
                consumed[0].append(line)
        sched.note("join", "called")
        p.stopped.wait()
        for k, q in ((0, p.stdout), (1, p.stderr)):
            consumed[k].extend(l for l in q.pop_all() if l is not threads.PLEASE_STOP)
        box["consumed"] = consumed
        box["closed"] = (bool(p.stdout.closed), bool(p.stderr.closed))
        try:
            p.join(raise_on_error=True)
            st["join"] = "returned"
        except ds.SchedAbort:
            raise
        except Exception as e:   # noqa
            msg = str(e)
            st["join"] = "timeout" if "TIMEOUT" in msg else ("fail" if "FAIL" in msg else "other:" + msg[:80])
        st["rc"] = p.returncode
        st["exited_at_join"] = box["svc"].exited
        sched.note("join", st["join"])
        try:
            threads.MAIN_THREAD.stop()
        except ds.SchedAbort:
            raise
        except BaseException:   # noqa
            pass

    sched.spawn("main", main_body)
    ds._shim_main.name = "MainThread"
    try:
        outcome = sched.run()
    finally:
        processes.subprocess = old_sub
        processes.unix_now = old_now
        processes.Signal = old_sig
        processes.Queue = old_queue
        ds.ShimThread.start = orig_shim_start
    lines = to_lines(sched.events)
    lines.append("end %s" % outcome)
    viol = st["viol"]
    svc = box.get("svc")
    if outcome in ("done", "stuck") and st["join"] is not None and svc is not None:
        cons = box.get("consumed", {0: [], 1: []})
        for k, nm in ((0, "stdout"), (1, "stderr")):
            if k in st["abandoned"]:
                continue
            if cons[k] != st["written"][k]:
                viol.append("C17: process.%s holds %s but the child wrote %s (%d of %d lines)"
                            % (nm, cons[k][:5], st["written"][k][:5], len(cons[k]), len(st["written"][k])))
        if box.get("closed") != (True, True):
            viol.append("C17: queues not closed when stopped: %s" % (box.get("closed"),))
        own = (not st["killed"]) and svc.exited is not None
        if st["join"] == "returned":
            if st.get("rc") != 0 or st["exited_at_join"] != 0:
                viol.append("C17: join() returned normally but returncode=%r, child status=%r" % (st.get("rc"), st["exited_at_join"]))
        elif st["join"] == "fail":
            if st.get("rc") in (0, None) or st.get("rc") != st["exited_at_join"]:
                viol.append("C17: join() raised FAIL with returncode=%r, child status=%r" % (st.get("rc"), st["exited_at_join"]))
        elif st["join"] == "timeout":
            if not st["user_stop"] and not st["killed"]:
                viol.append("C17: join() raised TIMEOUT for a child that exited on its own (status %r, nobody asked it to stop)" % (svc.exited,))
        else:
            viol.append("C17: join() ended unexpectedly: %s" % st["join"])
        if own and not st["user_stop"] and sc["status"] == 0 and st["join"] != "returned":
            viol.append("C17: join() raised (%s) for a child that exited 0 on its own" % st["join"])
    if outcome == "stuck" or (outcome == "done" and st["join"] is None):
        viol.append("C17: join() did not return (%s)" % outcome)
    for vt in sched.vts:
        if vt.exc is not None:
            viol.append("unexpected exception in %s: %r" % (vt.name, vt.exc))
    return {"lines": lines, "outcome": outcome, "monitor": sorted(set(viol)), "choices": list(sched.choices), "cand_counts": list(sched.cand_counts), "steps": sched.steps,
            "switches": sched.context_switches, "stuck": [vt.name for vt in sched.stuck]}


def to_lines(events):
    lines = []

    def tname(who):
        if who.endswith(" stdout"):
            return "r0"
        if who.endswith(" stderr"):
            return "r1"
        if who.endswith(" monitor"):
            return "mon"
        if who.endswith(" stdin"):
            return "wr"
        return who
    for ev in events:
        if ev[0] == "-":
            if ev[1] == "note":
                lines.append(" ".join(str(w) for w in ev[2:]))
            continue
        t = tname(ev[0])
        if ev[1] == "m8":
            k = ev[2]
            if k in ("read", "add", "write"):
                if k == "add":
                    lines.append("step %s add %s" % (t, ev[3]))
                else:
                    lines.append("step %s %s %s %s" % (t, k, ev[3], ev[4]))
            elif k == "close":
                lines.append("step %s close %s" % (t, ev[3]))
            elif k == "exit":
                lines.append("step child exit %s" % ev[3])
            elif k == "mtest":
                lines.append("step mon mtest %s" % ("True" if ev[3] else "False"))
            elif k == "wait":
                lines.append("step %s wait %s" % (t, " ".join(str(x) for x in ev[3:])))
            elif k == "kill":
                lines.append("step %s kill %s" % (t, ev[3]))
        elif ev[1] == "W" and ev[3] == "_go":
            if ev[2] == "PS":
                lines.append("step %s pstop" % t)
            elif ev[2] == "ST":
                lines.append("step %s stopped" % t)
    return lines
