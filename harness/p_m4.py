"""C07 / C08 / C09 plugin: M4 trace acceptance + monitors on the real Queue."""
from . import plug

RULE = {
    "C07": "scenario = 2-5 threads x 1-3 ops of {add, add(till), add(force), push, extend, pop, pop(till), pop_one, pop_all, len, "
           "close, add(PLEASE_STOP)} on one real Queue (max in {1,2,3,1024}, optional prefill) + an environment thread firing "
           "tills and possibly closing, with the real timer daemon on a virtual clock; schedule = seeded random/PCT/sticky walk over "
           "every lock operation of Queue/Lock/Signal/OrSignal/Till; non-trivial = >=1 pre-emption inside a Queue method; "
           "distinct = (scenario, schedule) hash",
}
RULE["C08"] = RULE["C07"] + "; C08 profile: max in {1,2,3}, racing producers with tills"
RULE["C09"] = RULE["C07"] + "; C09 profile: many blocked/about-to-block consumers, close() at every position"


class M4(plug.Model):
    name = "m4"
    mode = "TA (trace acceptance)"

    def run(self, sc, chooser, seed):
        from . import m4_queue
        return m4_queue.run_scenario(sc, chooser=chooser, seed=seed)

    def shape(self, sc):
        from . import m4_queue
        return m4_queue.shape(sc)

    def header(self, sc):
        return "max=%d allow=%d silent=%d prefill=%s" % (sc["max"], 1 if sc["allow"] else 0, 1 if sc.get("silent", True) else 0,
                                                        ",".join(str(v) for v in sc["prefill"]))

    def est_steps(self, sc):
        return 80 * len(sc["threads"])


MODEL = M4()


def gen(rng, prop, job):
    from . import m4_queue
    if job.get("long_idle"):
        return m4_queue.gen_long_idle(rng)
    return m4_queue.gen_scenario(rng, prop)


def gen_small(rng, prop, job):
    """two or three threads with one or two operations each on a queue of capacity 1 or 2"""
    from . import m4_queue
    sc = m4_queue.gen_scenario(rng, prop)
    sc["threads"] = [t[:(2 if i == 0 else 1)] for i, t in enumerate(sc["threads"][:3])]
    sc["max"] = min(sc["max"], 2)
    sc["prefill"] = sc["prefill"][:sc["max"]]
    used = set()
    for t in sc["threads"]:
        for op in t:
            if op[0] == "add_till":
                used.add(op[2])
            elif op[0] == "pop_till":
                used.add(op[1])
    sc["fire"] = [x for x in sc["fire"] if x in used]
    sc["nstall"] = min(sc.get("nstall", 0), 1)
    return sc


def make_jobs(prop, tier, seed):
    jobs = plug.std_jobs(prop, tier, seed, "m4", n_quick=16, per_quick=8, schedules=6)
    jobs.extend(plug.line_jobs(prop, tier, seed))
    # a Queue parks its callers in Lock.wait() on Signals and wakes them through `closed` / tills: the Signal layer (M1) and the
    # Lock's hand-over (M3) are part of every Queue property
    jobs.extend(plug.m1_layer_jobs(prop, tier, seed))
    jobs.extend(plug.m3_layer_jobs(prop, tier, seed))
    if prop == "C07":
        for j in range(1 if tier == "quick" else 4):
            jobs.append({"kind": "explore", "long_idle": True, "prop": prop, "seed": seed * 22801763 + j, "scenarios": 1, "schedules": 1})
    if tier == "thorough":
        for j in range(16):
            jobs.append({"kind": "pbound", "prop": prop, "seed": seed * 104729 + j, "k": 2, "budget": 1500})
    else:
        jobs.append({"kind": "pbound", "prop": prop, "seed": seed * 104729, "k": 1, "budget": 150})
    return jobs


def search_jobs(prop, tier, seed, corr_fail):
    return plug.std_search_jobs(prop, tier, seed, corr_fail)


def run_job(job):
    if job["kind"] == "layer":
        return plug.run_m1_layer(job, "the model of Queue (Lock.wait() parks on one Signal and is woken by go())")
    r = plug.m1_layer_replay(job)
    if r is not None:
        return r
    if job["kind"] == "layer3":
        return plug.run_m3_layer(job)
    r = plug.m3_layer_replay(job)
    if r is not None:
        return r
    if job["kind"] == "pbound":
        return plug.pbound_job(MODEL, gen_small, job)
    return plug.std_job(MODEL, gen, job)


def shrink(prop, failure):
    if (failure.get("replay") or {}).get("model") in ("m1-layer", "m3-layer"):
        return failure
    return plug.std_shrink(MODEL, prop, failure)


def trusted_base(prop):
    return [
        "Lean 4.33 kernel; axioms of every theorem audited to be within {propext, Classical.choice, Quot.sound}",
        "statements in lean/MoThreads/Props/%s.lean" % prop,
        "hand-written model lean/MoThreads/Model/Queue.lean, tied to /repo/mo_threads/queues.py by trace acceptance of real "
        "executions (harness/m4_queue.py): mutex acquire/release, every truth test of `closed`/`till` and every length test made by "
        "a Queue method (with the value read), every deque mutation, parking and the value lock.wait() returned, every result",
        "layering: the Lock's notification discipline is abstracted to an arbitrary `signal t` environment move (safety does not "
        "depend on it; no-lost-notification is C06 on M3); the real Lock/Signal/OrSignal/Till run underneath",
        "modelled, not verified: collections.deque operations, `with` semantics, mo_logs.logger.error raising, the 5 s stall Till "
        "(replaced by an environment-fired signal) and logger.alert (stub) of queues that are not silent",
    ]


def assumptions(prop):
    return ["unique=False queues; silent and non-silent queues (a queue that is not silent parks its producers on a fresh 5 s stall timer "
            "each turn: a signal fired by the environment thread once the producer is parked on it; logger.alert is stubbed)",
            "values are distinct naturals; PLEASE_STOP is only sent through add(PLEASE_STOP)/close()"]


for _k in list(RULE):      # RULE-EXTRA: what was added to the exploration after the rounds of seeded changes
    RULE[_k] += '; plus: the M1 and M3 explorations as LAYERS, observer scenarios (len/pop_all against extend batches), monitors on every non-forced append / every park with a fired till / every stop marker returned / add(PLEASE_STOP), line-mode jobs'
