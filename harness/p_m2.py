"""C03 / C04 / C15 plugin: M2 trace acceptance + monitors on the real Signal composition operators with CPython's
reference counting as the collector."""
from . import plug

_BASE = ("scenario = 2-4 leaf signals held by the program and 1-3 threads running 2-5 operations each out of {c = a | b, c = a & b, "
         "nested expressions with a temporary inner composite ((a|b)&c, (a&b)|c, (a|b)|c), go(), dropping a variable, then(user "
         "callback), a.wait(till=b)} over shared variables, plus a thread that finally triggers every leaf the program still "
         "holds; real Signal/OrSignal/AndSignals, gc disabled so that objects die by reference counting exactly when the last "
         "reference goes; then/go/remove_then are atomic sections, every callback, operand test and section is a pre-emption "
         "point; non-trivial = >=1 pre-emption; distinct = (scenario, schedule) hash")
RULE = {"C03": _BASE, "C04": _BASE + "; C04 profile: more & and nested temporaries", "C15": _BASE}


class M2(plug.Model):
    name = "m2"
    mode = "TA (trace acceptance, every model step observed; state of every live signal compared after each operation)"

    def __init__(self, prop):
        self.prop = prop

    def run(self, sc, chooser, seed):
        from . import m2_composite
        r = m2_composite.run_scenario(sc, chooser=chooser, seed=seed)
        if not getattr(self, "_const_done", False):
            self._const_done = True
            r["monitor"] = sorted(set(r["monitor"] + m2_composite.constants_monitor()))
        return r

    def shape(self, sc):
        from . import m2_composite
        return m2_composite.shape(sc)

    def est_steps(self, sc):
        return 300


MODELS = {p: M2(p) for p in ("C03", "C04", "C15")}


def gen(rng, prop, job):
    from . import m2_composite
    return m2_composite.gen_scenario(rng, prop)


def make_jobs(prop, tier, seed):
    return plug.std_jobs(prop, tier, seed, "m2", n_quick=16, per_quick=6, schedules=4)


def search_jobs(prop, tier, seed, corr_fail):
    return plug.std_search_jobs(prop, tier, seed, corr_fail)


def run_job(job):
    return plug.std_job(MODELS[job["prop"]], gen, job)


def trusted_base(prop):
    return [
        "Lean 4.33 kernel; axioms of every theorem audited to be within {propext, Classical.choice, Quot.sound}",
        "statements in lean/MoThreads/Props/%s.lean" % prop,
        "hand-written model lean/MoThreads/Model/Composite.lean (heap of signals, OrSignal and AndSignals objects, per-thread lists "
        "of pending actions, reference-count collection with the OrSignal weak-reference callback), tied to "
        "/repo/mo_threads/signals.py by trace acceptance of real executions (harness/m2_composite.py): every operand test of "
        "`a | b`, every object creation, every then()/go()/remove_then() with its signal and callback, every callback run, every "
        "object death reported by a weak reference, and the flag / number of pending callbacks of every live signal after each "
        "operation",
        "then(), go() (flag + detach) and remove_then() are single steps of this model; that they are atomic with respect to each "
        "other is what C01/C02 prove about the fine-grained model M1 of the same code",
        "modelled, not verified: CPython's reference counting and weak-reference callback order; no cyclic garbage collection "
        "(the harness disables gc; a collector run could free cycles earlier than the model)",
    ]


def assumptions(prop):
    return ["operands of | and & are Signal objects (None/True/False/DONE/NEVER identities are checked on the real operators by a monitor)",
            "objects are reclaimed by reference counting only"]
