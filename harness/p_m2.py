"""C03 / C04 / C15 plugin: M2 trace acceptance + monitors on the real Signal composition operators with CPython's
reference counting as the collector."""
from . import plug

_BASE = ("scenario = 2-4 leaf signals held by the program and 1-3 threads running 2-5 operations each out of {c = a | b, c = a & b, "
         "nested expressions with a temporary inner composite ((a|b)&c, (a&b)|c, (a|b)|c), go(), dropping a variable, then(user "
         "callback), a.wait(till=b)} over shared variables, plus a thread that finally triggers every leaf the program still "
         "holds; real Signal/OrSignal/AndSignals, gc disabled so that objects die by reference counting exactly when the last "
         "reference goes; then/go/remove_then are atomic sections, every callback, operand test and section is a pre-emption "
         "point; non-trivial = >=1 pre-emption; distinct = (scenario, schedule) hash")
RULE = {"C03": _BASE, "C04": _BASE + "; C04 profile: more & and nested temporaries; plus fine-mode runs (monitor only): AND composites whose operands "
        "are triggered by separate threads with a pre-emption point at every read/write of AndSignals.remaining and every operation on its lock",
        "C15": _BASE}


class M2(plug.Model):
    name = "m2"
    mode = "TA (trace acceptance, every model step observed; state of every live signal compared after each operation)"

    def __init__(self, prop):
        self.prop = prop

    def run(self, sc, chooser, seed):
        from . import m2_composite
        r = m2_composite.run_scenario(sc, chooser=chooser, seed=seed)
        if not getattr(self, "_const_done", False):
            self._const_done = True
            r["monitor"] = sorted(set(r["monitor"] + m2_composite.constants_monitor()))
        return r

    def shape(self, sc):
        from . import m2_composite
        return m2_composite.shape(sc)

    def est_steps(self, sc):
        return 300


class M2F(M2):
    """fine mode (C04): the AndSignals countdown is not an atomic section; monitors only"""
    name = "m2f"
    mode = "monitor"


class M2GC(plug.Model):
    """the real operators with the cyclic collector (sequential histories with gc.collect() events); monitors only"""
    name = "m2gc"
    mode = "monitor"

    def run(self, sc, chooser, seed):
        from . import m2_gcprobe
        return m2_gcprobe.run_scenario(sc)

    def shape(self, sc):
        from . import m2_gcprobe
        return m2_gcprobe.shape(sc)

    def est_steps(self, sc):
        return 20


MODELGC = M2GC()


def gengc(rng, prop, job):
    from . import m2_gcprobe
    return m2_gcprobe.gen_scenario(rng, prop)


MODELS = {p: M2(p) for p in ("C03", "C04", "C15")}
MODELF = M2F("C04")


def genf(rng, prop, job):
    from . import m2_composite
    return m2_composite.gen_fine(rng)


def gen(rng, prop, job):
    from . import m2_composite
    return m2_composite.gen_scenario(rng, prop)


def layer_jobs(prop, tier, seed):
    """M2 treats then / go / remove_then as atomic; that is C01/C02's subject on the fine-grained model M1.  The same
    exploration is run here so that a change which breaks that atomicity is reported for this property too."""
    return plug.m1_layer_jobs(prop, tier, seed)


def run_layer(job):
    return plug.run_m1_layer(job, "the model of composites")


def make_jobs(prop, tier, seed):
    jobs = plug.std_jobs(prop, tier, seed, "m2", n_quick=16, per_quick=6, schedules=4)
    jobs.extend(plug.line_jobs(prop, tier, seed))
    jobs.extend(layer_jobs(prop, tier, seed))
    if prop == "C04":
        for j in range(4 if tier == "quick" else 24):
            jobs.append({"kind": "explore", "side": "fine", "prop": prop, "seed": seed * 15485863 + j, "scenarios": 6, "schedules": 16, "no_driver": True})
    if tier == "thorough":
        for j in range(24):
            jobs.append({"kind": "pbound", "prop": prop, "seed": seed * 104729 + j, "k": 2, "budget": 1200})
    else:
        jobs.append({"kind": "pbound", "prop": prop, "seed": seed * 104729, "k": 1, "budget": 100})
    if prop in ("C03", "C04"):
        for j in range(4 if tier == "quick" else 32):
            jobs.append({"kind": "explore", "side": "gc", "prop": prop, "seed": seed * 49979687 + j, "scenarios": 250, "schedules": 1, "no_driver": True})
    return jobs


def search_jobs(prop, tier, seed, corr_fail):
    return plug.std_search_jobs(prop, tier, seed, corr_fail)


def run_job(job):
    if job["kind"] == "layer":
        return run_layer(job)
    if job["kind"] == "pbound":
        return plug.pbound_job(MODELS[job["prop"]], plug.smallest_of(gen), job)
    r = plug.m1_layer_replay(job)
    if r is not None:
        return r
    if job.get("side") == "gc":
        return plug.std_job(MODELGC, gengc, job)
    if job.get("side") == "fine":
        return plug.std_job(MODELF, genf, job)
    rp = (job.get("replay") or {}).get("replay") or job.get("replay") or (job.get("failure") or {}).get("replay") or {}
    if (rp.get("scenario") or {}).get("gcprobe"):
        if job["kind"] == "shrink":
            return {"failure": job["failure"]}
        res = plug.run_batch(MODELGC, job["prop"], [(rp["scenario"], None, 0, [])], use_driver=False)
        if "infra_error" in res:
            return res
        hit = res["mon_fail"]
        return {"violated": bool(hit), "message": hit[0]["msg"] if hit else "the composite agreed with its operands under cyclic collections"}
    if (rp.get("scenario") or {}).get("fine"):
        if job["kind"] == "shrink":
            return {"failure": job["failure"]}
        res = plug.run_batch(MODELF, job["prop"], [(rp["scenario"], None, 0, rp["choices"])], use_driver=False)
        if "infra_error" in res:
            return res
        hit = res["mon_fail"]
        return {"violated": bool(hit), "message": hit[0]["msg"] if hit else "the composite agreed with its operands"}
    return plug.std_job(MODELS[job["prop"]], gen, job)


def trusted_base(prop):
    return [
        "Lean 4.33 kernel; axioms of every theorem audited to be within {propext, Classical.choice, Quot.sound}",
        "statements in lean/MoThreads/Props/%s.lean" % prop,
        "hand-written model lean/MoThreads/Model/Composite.lean (heap of signals, OrSignal and AndSignals objects, per-thread lists "
        "of pending actions, reference-count collection with the OrSignal weak-reference callback), tied to "
        "/repo/mo_threads/signals.py by trace acceptance of real executions (harness/m2_composite.py): every operand test of "
        "`a | b`, every object creation, every then()/go()/remove_then() with its signal and callback, every callback run, every "
        "object death reported by a weak reference, and the flag / number of pending callbacks of every live signal after each "
        "operation",
        "then(), go() (flag + detach) and remove_then() are single steps of this model; that they are atomic with respect to each "
        "other is what C01/C02 prove about the fine-grained model M1 of the same code",
        "modelled, not verified: CPython's reference counting and weak-reference callback order; no cyclic garbage collection "
        "(the harness disables gc; a collector run could free cycles earlier than the model)",
    ]


def assumptions(prop):
    return ["operands of | and & are Signal objects (None/True/False/DONE/NEVER identities are checked on the real operators by a monitor)",
            "objects are reclaimed by reference counting only"]


for _k in list(RULE):      # RULE-EXTRA: what was added to the exploration after the rounds of seeded changes
    RULE[_k] += '; plus: the whole M1 exploration incl. hostile Signal programs as a LAYER (atomicity of then/go/wait/remove_then), an operand table of | and & over every kind of operand, line-mode jobs'
