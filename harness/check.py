"""
check <property id> [--tier quick|thorough] [--replay FILE]

Protocol (DESIGN §3.4):
  1. proof obligations: lake build, escape-hatch grep, `#print axioms` of the property's theorems
  2. correspondence: the REAL code under the deterministic scheduler vs. the Lean model (driver),
     with the property monitors running on the implementation in every run
  3. all fine -> evidence, KNOWN-FINDING lines, exit 0
  4. something broke -> failing-input search on the implementation -> replay file ->
     `VIOLATION property=<id> replay=<path>` (+ ` no-failing-input-found` when none was found), exit 1
  exit 2 = infrastructure failure / timeout.
"""
import argparse
import collections
import hashlib
import importlib
import json
import multiprocessing
import multiprocessing.pool
import os
import sys
import time
import traceback

VERIF = os.path.dirname(os.path.dirname(os.path.abspath(__file__)))
sys.path.insert(0, VERIF)

from harness import lean_audit  # noqa

PLUGINS = {
    "C01": "harness.p_m1", "C02": "harness.p_m1",
    "C07": "harness.p_m4", "C08": "harness.p_m4", "C09": "harness.p_m4",
    "C10": "harness.p_m5", "C11": "harness.p_m5", "C12": "harness.p_m5",
    "C16": "harness.p_m7", "C18": "harness.p_m9", "C19": "harness.p_m10", "C17": "harness.p_m8", "C03": "harness.p_m2", "C04": "harness.p_m2", "C15": "harness.p_m2",
    "C13": "harness.p_m6", "C14": "harness.p_m6",
    "C05": "harness.p_m3", "C06": "harness.p_m3", "C20": "harness.p_m3",
}

NPROC = int(os.environ.get("VERIF_NPROC", "16"))


def known_findings():
    p = os.path.join(VERIF, "known_findings.json")
    if not os.path.exists(p):
        return []
    return json.load(open(p)).get("findings", [])


def _worker_init():
    # workers print mo_threads/atexit noise on stderr; keep the check's own stdout clean
    try:
        os.makedirs(os.path.join(VERIF, "work"), exist_ok=True)
        logp = os.path.join(VERIF, "work", "worker_stderr.log")
        try:
            if os.path.getsize(logp) > 20 * 1024 * 1024:      # the noise of earlier runs is of no use: start over
                os.truncate(logp, 0)
        except OSError:
            pass
        fd = os.open(logp, os.O_WRONLY | os.O_CREAT | os.O_APPEND)
        os.dup2(fd, 2)
        os.dup2(fd, 1)
    except Exception:
        pass


def _run_job(args):
    modname, job = args
    try:
        mod = importlib.import_module(modname)
        return mod.run_job(job)
    except BaseException as e:  # noqa
        return {"infra_error": "%s: %r\n%s" % (job.get("kind"), e, traceback.format_exc())}


_ABANDONED = []      # pools that were ended by SIGKILL: keep them referenced, their finalizer (terminate) could hang


def _dbg(msg):
    if os.environ.get("VERIF_DEBUG"):
        sys.stderr.write("[check %s] %s\n" % (time.strftime("%H:%M:%S"), msg))
        sys.stderr.flush()


def run_jobs(modname, jobs, timeout):
    if not jobs:
        return []
    _dbg("run_jobs %s: %d jobs (%s)" % (modname, len(jobs), ",".join(sorted(set(j.get("kind", "?") for j in jobs)))))
    ctx = multiprocessing.get_context("fork")
    # no maxtasksperchild: a retiring worker runs Python's normal shutdown, which can wait for ever on threads that the
    # scheduler harness left parked; workers are only ever ended by SIGKILL below
    pool = ctx.Pool(min(NPROC, len(jobs)), initializer=_worker_init)
    try:
        r = pool.map_async(_run_job, [(modname, j) for j in jobs], chunksize=1)
        out = r.get(timeout)
        _dbg("run_jobs done")
        return out
    except multiprocessing.TimeoutError:
        return None
    finally:
        # mo_threads installs SIGTERM/SIGINT handlers in the workers, so Pool.terminate() (SIGTERM, then join) can hang; and
        # terminate() after a SIGKILL can hang too (a killed worker may hold the task queue's read lock).  So: tell the pool's
        # maintenance thread to stop re-populating, SIGKILL the workers, and abandon the pool (its helper threads are
        # daemons; the check leaves through os._exit).
        _ABANDONED.append(pool)
        try:
            pool._worker_handler._state = multiprocessing.pool.TERMINATE
            pool._state = multiprocessing.pool.TERMINATE
        except Exception:
            pass
        for p in list(getattr(pool, "_pool", []) or []):
            try:
                os.kill(p.pid, 9)
            except Exception:
                pass


def merge(results):
    agg = {"evaluations": 0, "transitions": 0, "context_switches": 0, "traces_validated": 0,
           "shapes": collections.Counter(), "distinct": set(), "corr_fail": [], "mon_fail": [],
           "samples": [], "infra": [], "extra": collections.Counter(), "known": []}
    for r in results:
        if r is None:
            continue
        if "infra_error" in r:
            agg["infra"].append(r["infra_error"])
            continue
        agg["evaluations"] += r.get("evaluations", 0)
        agg["transitions"] += r.get("transitions", 0)
        agg["context_switches"] += r.get("context_switches", 0)
        agg["traces_validated"] += r.get("traces_validated", 0)
        agg["shapes"].update(r.get("shapes", {}))
        agg["distinct"].update(r.get("distinct", []))
        agg["corr_fail"].extend(r.get("corr_fail", []))
        agg["mon_fail"].extend(r.get("mon_fail", []))
        agg["known"].extend(r.get("known", []))
        agg["extra"].update(r.get("extra", {}))
        if len(agg["samples"]) < 4:
            agg["samples"].extend(r.get("samples", [])[:2])
    return agg


def write_replay(prop, obj):
    d = os.path.join(VERIF, "replays")
    os.makedirs(d, exist_ok=True)
    blob = json.dumps(obj, sort_keys=True, default=str)
    h = hashlib.sha256(blob.encode()).hexdigest()[:12]
    path = os.path.join(d, "%s-%s.json" % (prop, h))
    with open(path, "w") as f:
        json.dump(obj, f, indent=1, default=str)
    return path


def match_known(prop, failure):
    """an OPEN known finding whose key equals the failure's signature"""
    sig = failure.get("signature")
    for k in known_findings():
        if k.get("property") == prop and k.get("status") == "open" and sig and k.get("key") == sig:
            return k
    return None


def main(argv=None):
    ap = argparse.ArgumentParser()
    ap.add_argument("prop")
    ap.add_argument("--tier", default=os.environ.get("VERIF_TIER", "quick"))
    ap.add_argument("--replay")
    a = ap.parse_args(argv)
    prop = a.prop
    tier = a.tier if a.tier in ("quick", "thorough") else "quick"
    seed = int(os.environ.get("VERIF_SEED", "0") or 0)
    t0 = time.time()
    if prop not in PLUGINS:
        print("unknown property %s" % prop)
        return 2
    modname = PLUGINS[prop]
    mod = importlib.import_module(modname)

    if a.replay:
        rp = json.load(open(a.replay))
        res = run_jobs(modname, [{"kind": "replay", "prop": prop, "replay": rp}], 600)
        if not res or "infra_error" in res[0]:
            print("replay failed to run: %s" % (res and res[0].get("infra_error")))
            return 2
        r = res[0]
        print("REPLAY property=%s verdict=%s %s" % (prop, "VIOLATED" if r["violated"] else "holds", r.get("message", "")))
        return 1 if r["violated"] else 0

    # 1. proof obligations ------------------------------------------------------------------------
    aud = lean_audit.audit()
    thms = aud.get("theorems", {}).get(prop, [])
    proof_broken = []
    if not aud.get("build_ok"):
        proof_broken.append("lake build failed")
    if aud.get("forbidden"):
        proof_broken.append("escape hatches in Lean sources: %s" % aud["forbidden"][:3])
    for t in thms:
        if not t["ok"]:
            proof_broken.append("theorem %s: axioms %s" % (t["name"], t["axioms"]))
    if not thms:
        proof_broken.append("no property theorem found for %s" % prop)
    lc_ok = None
    _dbg("audit done")
    if tier == "thorough" and not proof_broken:
        lc_ok, lc_out = lean_audit.leanchecker()
        _dbg("leanchecker done: %s" % lc_ok)
        if not lc_ok:
            proof_broken.append("leanchecker rejected the compiled modules: %s" % lc_out[-300:])

    # 2. correspondence + monitors ------------------------------------------------------------------
    jobs = mod.make_jobs(prop, tier, seed)
    budget = 3000 if tier == "thorough" else 900
    results = run_jobs(modname, jobs, budget)
    if results is None:
        print("TIMEOUT in correspondence jobs")
        return 2
    agg = merge(results)
    if agg["infra"]:
        print("INFRASTRUCTURE FAILURE:\n" + "\n".join(agg["infra"][:3]))
        return 2

    violations = []      # (line suffix, replay path)
    known_lines = []
    mon_new = []
    for f in agg["mon_fail"]:
        k = match_known(prop, f)
        if k:
            known_lines.append("KNOWN-FINDING: property=%s %s" % (prop, k.get("what", k.get("key"))))
        else:
            mon_new.append(f)
    for f in agg["known"]:
        k = match_known(prop, f)
        if k:
            known_lines.append("KNOWN-FINDING: property=%s %s" % (prop, k.get("what", k.get("key"))))
        else:
            mon_new.append(f)

    if mon_new:
        # a monitor fired on the implementation: that run IS the failing input
        best = min(mon_new, key=lambda f: len(json.dumps(f.get("replay", {}), default=str)))
        if hasattr(mod, "shrink"):
            try:
                sres = run_jobs(modname, [{"kind": "shrink", "prop": prop, "failure": best}], 300)
                if sres and sres[0] and "failure" in sres[0]:
                    best = sres[0]["failure"] or best
            except Exception:
                pass
        path = write_replay(prop, {"property": prop, "kind": "monitor", "verdict": best.get("msg"),
                                   "signature": best.get("signature"), "replay": best.get("replay"),
                                   "also": [f.get("msg") for f in mon_new[:5]]})
        violations.append(("", path))
    elif agg["corr_fail"] or proof_broken:
        # the proof or the tie broke: search the implementation for a failing input
        found = None
        sjobs = mod.search_jobs(prop, tier, seed, agg["corr_fail"]) if hasattr(mod, "search_jobs") else []
        if sjobs:
            sres = run_jobs(modname, sjobs, budget)
            if sres:
                sagg = merge(sres)
                cands = [f for f in sagg["mon_fail"] if not match_known(prop, f)]
                if cands:
                    found = min(cands, key=lambda f: len(json.dumps(f.get("replay", {}), default=str)))
        if found:
            path = write_replay(prop, {"property": prop, "kind": "monitor-after-search", "verdict": found.get("msg"),
                                       "signature": found.get("signature"), "replay": found.get("replay"),
                                       "broken": proof_broken + [f.get("msg") for f in agg["corr_fail"][:3]]})
            violations.append(("", path))
        else:
            first = agg["corr_fail"][0] if agg["corr_fail"] else None
            path = write_replay(prop, {
                "property": prop, "kind": "no-failing-input-found",
                "broken_proof_obligations": proof_broken,
                "broken_correspondence": (first or {}).get("msg"),
                "correspondence": (first or {}).get("mode"),
                "first_divergence": (first or {}).get("replay"),
                "n_divergent_runs": len(agg["corr_fail"]),
                "theorems": [t["name"] for t in thms],
                "searched": {"runs": agg["evaluations"], "search_jobs": len(sjobs)},
            })
            violations.append((" no-failing-input-found", path))

    # 3. evidence -------------------------------------------------------------------------------
    wall = time.time() - t0
    discharged = sum(1 for t in thms if t["ok"]) if aud.get("build_ok") and not aud.get("forbidden") else 0
    ev = {
        "property_id": prop, "tier": tier, "seed": seed, "level": "proof",
        "coverage": {
            "obligations": len(thms), "discharged": discharged,
            "checker_cmd": "cd /verif/lean && lake build MoThreads driver && lake env lean ../work/Axioms.lean"
                           + (" && lake env leanchecker MoThreads" if tier == "thorough" else ""),
            "trusted_base": mod.trusted_base(prop) if hasattr(mod, "trusted_base") else [],
            "theorems": [{"name": t["name"], "axioms": t["axioms"]} for t in thms],
            "leanchecker": lc_ok,
            "evaluations": agg["evaluations"],
            "distinct_nontrivial": len(agg["distinct"]),
            "rule": mod.RULE.get(prop, "") if hasattr(mod, "RULE") else "",
            "transitions": agg["transitions"],
            "context_switches": agg["context_switches"],
            "traces_validated_against_impl": agg["traces_validated"],
            "scenario_shapes": dict(agg["shapes"].most_common(12)),
            "n_scenario_shapes": len(agg["shapes"]),
            "extra": {k: v for k, v in agg["extra"].items() if not k.startswith("kind:")},
            "transition_kinds": dict(sorted(((k[5:], v) for k, v in agg["extra"].items() if k.startswith("kind:")), key=lambda kv: -kv[1])[:150]),
            "n_transition_kinds": sum(1 for k in agg["extra"] if k.startswith("kind:")),
            "samples": agg["samples"][:4],
            "correspondence_failures": len(agg["corr_fail"]),
            "monitor_failures": len(agg["mon_fail"]),
            "known_findings_printed": sorted(set(known_lines)),
        },
        "assumptions": mod.assumptions(prop) if hasattr(mod, "assumptions") else [],
        "wall_s": round(wall, 2),
        "violations": len(violations),
    }
    os.makedirs(os.path.join(VERIF, "evidence"), exist_ok=True)
    with open(os.path.join(VERIF, "evidence", "%s.json" % prop), "w") as f:
        json.dump(ev, f, indent=1, default=str)

    for l in sorted(set(known_lines)):
        print(l)
    print("check %s tier=%s seed=%d: theorems %d/%d, runs=%d steps=%d distinct=%d traces_accepted=%d corr_fail=%d mon_fail=%d wall=%.1fs"
          % (prop, tier, seed, discharged, len(thms), agg["evaluations"], agg["transitions"], len(agg["distinct"]),
             agg["traces_validated"], len(agg["corr_fail"]), len(agg["mon_fail"]), wall))
    if violations:
        for suffix, path in violations:
            print("VIOLATION property=%s replay=%s%s" % (prop, path, suffix))
        return 1
    return 0


if __name__ == "__main__":
    try:
        rc = main()
    except SystemExit:
        raise
    except BaseException:
        traceback.print_exc()
        rc = 2
    sys.stdout.flush()
    os._exit(rc)
