"""
C03 / C04 with the cyclic garbage collector: a sequential search on the REAL operators (no scheduler, no Lean model).

The scheduled M2 runs keep `gc` disabled, so that objects die by reference counting exactly where the model says.  CPython's
cycle collector may, in addition, free any object that is unreachable from the program at ANY moment.  This probe builds a
Boolean expression over leaf signals, keeps only what a program would keep (the leaves it has not dropped and the top
composite), and interleaves `gc.collect()` with triggering and dropping leaves.  After every event the composite must equal
the Boolean function of its leaves (a dropped leaf keeps the flag it had), its callback must have run iff it is true.
A composite whose operands are kept alive only through an unreachable cycle fails here.
"""
import gc


def gen_expr(rng, nleaves, depth, ops="|&"):
    if depth <= 0 or rng.random() < 0.3:
        return rng.randrange(nleaves)
    return [rng.choice(ops), gen_expr(rng, nleaves, depth - 1, ops), gen_expr(rng, nleaves, depth - 1, ops)]


def leaves_of(e):
    if isinstance(e, int):
        return {e}
    return leaves_of(e[1]) | leaves_of(e[2])


def gen_scenario(rng, prop="C03"):
    n = rng.randint(2, 4)
    ops = "|" if prop == "C03" else "|&"       # C03: OR-only expressions; C04: expressions that contain an AND
    while True:
        e = gen_expr(rng, n, rng.randint(1, 3), ops)
        if not isinstance(e, int) and (prop == "C03" or _has_and(e)):
            break
    used = sorted(leaves_of(e))
    hist = []
    order = list(used)
    rng.shuffle(order)
    pre = [i for i in order if rng.random() < 0.15]       # triggered before the expression is built
    for i in order:
        if i in pre:
            continue
        r = rng.random()
        if r < 0.35:
            hist.append(["gc"])
        if rng.random() < 0.2:
            hist.append(["drop", i])
        else:
            hist.append(["go", i])
            if rng.random() < 0.25:
                hist.append(["drop", i])
        if rng.random() < 0.3:
            hist.append(["gc"])
    if not any(h[0] == "gc" for h in hist):
        hist.insert(rng.randint(0, len(hist)), ["gc"])
    return {"gcprobe": True, "prop": prop, "nleaves": n, "expr": e, "pre": pre, "hist": hist}


def shape(sc):
    def f(e):
        return "x" if isinstance(e, int) else "(" + f(e[1]) + e[0] + f(e[2]) + ")"
    return "gc:" + f(sc["expr"]) + ":" + "".join({"gc": "G", "go": "t", "drop": "d"}[h[0]] for h in sc["hist"])


def run_scenario(sc, chooser=None, seed=0):
    from . import detsched as ds
    ds.install()
    ds.reset_globals()
    from mo_threads import signals
    was_enabled = gc.isenabled()
    gc.disable()                      # collections happen exactly at the `gc` events of the history
    viol = []
    steps = 0
    try:
        leaves = {i: signals.Signal("x%d" % i) for i in range(sc["nleaves"])}
        flags = {i: False for i in leaves}
        for i in sc.get("pre", []):
            leaves[i].go()
            flags[i] = True

        def build(e):
            if isinstance(e, int):
                return leaves[e]
            a = build(e[1])
            b = build(e[2])
            return (a | b) if e[0] == "|" else (a & b)

        def value(e):
            if isinstance(e, int):
                return flags[e]
            return (value(e[1]) or value(e[2])) if e[0] == "|" else (value(e[1]) and value(e[2]))

        top = build(sc["expr"])
        ran = []
        top.then(lambda: ran.append(1))

        def check(where):
            want = value(sc["expr"])
            got = bool(top)
            op = sc.get("prop") or ("C04" if _has_and(sc["expr"]) else "C03")
            if got != want:
                viol.append("%s: with the cyclic collector: %s after %s the composite reads %s but its operands make it %s "
                            "(the program holds the composite and its untriggered leaves)" % (op, shape(sc), where, got, want))
            elif got and len(ran) != 1:
                viol.append("%s: with the cyclic collector: composite is true but its callback ran %d times" % (op, len(ran)))
            elif not got and ran:
                viol.append("%s: with the cyclic collector: callback of a false composite ran" % op)

        check("construction")
        for k, h in enumerate(sc["hist"]):
            steps += 1
            if h[0] == "gc":
                gc.collect()
            elif h[0] == "go":
                s = leaves.get(h[1])
                if s is not None:
                    s.go()
                    flags[h[1]] = True
            elif h[0] == "drop":
                leaves.pop(h[1], None)
            check("event %d %s" % (k, h))
            if viol:
                break
    finally:
        gc.collect()
        if was_enabled:
            gc.enable()
    return {"lines": [], "outcome": "done", "monitor": viol, "choices": [], "steps": steps, "switches": 0, "stuck": []}


def _has_and(e):
    if isinstance(e, int):
        return False
    return e[0] == "&" or _has_and(e[1]) or _has_and(e[2])
