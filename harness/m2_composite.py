"""
M2 correspondence + monitors for C03 / C04 / C15: the REAL mo_threads.signals (Signal.__or__/__and__/then/go/remove_then,
or_signal, OrSignal, AndSignals, wait(till=)) under the deterministic scheduler, with CPython's reference counting as
the collector, against Model/Composite.lean.

Granularity: Signal.then / go (flag and detach) / remove_then are ATOMIC sections (their mutual atomicity is what
C01/C02 establish on M1); every callback, every operand test of `a | b` and every such section is a pre-emption point.
The harness never keeps a strong reference to a signal: the program's variables (`vars`) are the only roots, objects
die by reference counting and announce it through a weak reference.
"""
import gc
import sys
import weakref

from . import detsched as ds

NT = 6


def jobs_of(o):
    """the callables waiting on a signal, whatever container the library keeps them in (today: a list of (target, error))"""
    jq = ds.raw(o, "job_queue")
    if not jq:
        return []
    if isinstance(jq, dict):
        return list(jq.keys())
    return [(x[0] if isinstance(x, (tuple, list)) and x else x) for x in jq]


def gen_scenario(rng, prop="C03"):
    nthreads = rng.randint(1, 3)
    nleaves = rng.randint(2, 4)
    threads = []
    nvar = [nleaves]
    made = list(range(nleaves))

    def newvar():
        nvar[0] += 1
        return nvar[0] - 1
    for t in range(nthreads):
        ops = []
        for _ in range(rng.randint(2, 5)):
            r = rng.random()
            a, b = rng.choice(made), rng.choice(made)
            if r < 0.30:
                v = newvar()
                ops.append(["or", v, a, b])
                made.append(v)
            elif r < (0.55 if prop == "C04" else 0.42):
                v = newvar()
                ops.append(["and", v, a, b])
                made.append(v)
            elif r < 0.68:
                ops.append(["go", a])
            elif r < 0.84:
                ops.append(["drop", a])
            elif r < 0.90:
                ops.append(["thenuser", a])
            elif r < 0.96:
                # a temporary inside an expression: (a | b) & c  /  (a & b) | c, the inner composite is never held
                v = newvar()
                ops.append(["nest", v, rng.choice(["or-and", "and-or", "or-or"]), a, b, rng.choice(made)])
                made.append(v)
            else:
                ops.append(["waitor", a, b])
        threads.append(ops)
    waits = any(o[0] == "waitor" for t in threads for o in t)
    return {"leaves": nleaves, "threads": threads, "fire_all": waits or rng.random() < 0.8}


def gen_fine(rng):
    """two or three threads triggering the operands of AND composites at the same moment"""
    nleaves = rng.randint(2, 3)
    threads = [[["and", nleaves, 0, 1]] + ([["and", nleaves + 1, nleaves, nleaves - 1]] if rng.random() < 0.4 else [])]
    # the triggers start only once the composites exist: they are separate threads gated by the variable table
    for v in range(nleaves):
        threads.append([["await", nleaves], ["go", v]])
    return {"leaves": nleaves, "threads": threads[:NT - 1], "fire_all": False, "fine": True}


def shape(sc):
    if sc.get("fine"):
        return "fine:l%d:t%d" % (sc["leaves"], len(sc["threads"]))
    ab = {"or": "o", "and": "a", "go": "g", "drop": "d", "thenuser": "u", "nest": "N", "waitor": "w"}
    return "l%d:%s%s" % (sc["leaves"], "/".join("".join(ab[o[0]] for o in t) for t in sc["threads"]), ":F" if sc["fire_all"] else "")


def run_scenario(sc, chooser=None, seed=0, max_steps=30000):
    """sc["fine"]: the AndSignals countdown is NOT an atomic section: every read and write of `remaining` and every
    operation on its lock is a pre-emption point (monitor-only runs: the trace is not replayed through the model)"""
    fine = bool(sc.get("fine"))
    ds.install()
    ds.reset_globals()
    from mo_threads import signals
    Signal, OrSignal, AndSignals = signals.Signal, signals.OrSignal, signals.AndSignals
    sched = ds.Sched(chooser=chooser, seed=seed, max_steps=max_steps, horizon=2.0)
    ds.start_timers(sched)
    gc.collect()
    gc.disable()           # reference counting only, as the model's collector
    st = {"viol": [], "nsig": 2, "nor": 0, "nand": 0}
    sid = {id(signals.DONE): 0, id(signals.NEVER): 1}       # id(obj) -> model id, for live objects only
    refs = {}              # model id -> weakref
    info = {}              # model id -> {"kind", "ops": (x, y), "go": last known, "direct": bool}
    oid, nid = {}, {}
    lines = []
    tls = {}               # vthread name -> context of the __or__ in progress

    def tnum():
        vt = sched.me()
        n = vt.name if vt is not None else "?"
        return int(n[1:]) if n.startswith("t") and n[1:].isdigit() else (NT - 1)

    def line(s):
        lines.append(s)

    def step(s):
        lines.append("step %d %s" % (tnum(), s))

    def on_dead(z):
        def cb(_):
            if sched.abort:
                return
            info[z]["alive"] = False
            for k, v in list(sid.items()):
                if v == z:
                    del sid[k]
            line("collect %d %d" % (tnum(), z))
        return cb

    def track(obj, kind, ops=None):
        z = st["nsig"]
        st["nsig"] += 1
        sid[id(obj)] = z
        info[z] = {"kind": kind, "ops": ops, "go": False, "direct": False, "alive": True}
        return z

    def watch(obj, z):
        refs[z] = weakref.ref(obj, on_dead(z))

    def jobdesc(target):
        if isinstance(target, Wrapped):
            target = target.target
        if isinstance(target, OrSignal):
            return "orHook %d" % oid.get(id(target), -1)
        f = getattr(target, "__func__", None)
        obj = getattr(target, "__self__", None)
        if isinstance(obj, OrSignal) and f is OrSignal.cleanup:
            return "orCleanup %d" % oid.get(id(obj), -1)
        if isinstance(obj, AndSignals) and f is AndSignals.done:
            return "andDone %d" % nid.get(id(obj), -1)
        if isinstance(obj, AndSignals) and f is AndSignals.cleanup:
            return "andCleanup %d" % nid.get(id(obj), -1)
        return "user %d" % getattr(target, "k", 0)

    class Wrapped(object):
        """a registered callback: running it is a pre-emption point and an event"""
        __slots__ = ("target",)

        def __init__(self, target):
            self.target = target

        def __call__(self, *a):
            vt = sched.me()
            if vt is None:
                return self.target(*a)
            saved = getattr(vt, "atomic", 0)
            vt.atomic = 0
            try:
                sched.yield_point(("m2", "run"))
                step("run " + jobdesc(self.target))
                if isinstance(getattr(self.target, "__self__", None), AndSignals) and not fine:
                    vt.atomic = 1        # the countdown step (decrement under its own lock, go() at zero) is one model step
                return self.target(*a)
            finally:
                vt.atomic = saved

        def __eq__(self, other):
            if isinstance(other, Wrapped):
                other = other.target
            return self.target == other

        def __hash__(self):
            return hash(self.target)

    class Atomic(object):
        def __enter__(self):
            vt = sched.me()
            self.vt = vt
            if vt is not None:
                vt.atomic = getattr(vt, "atomic", 0) + 1

        def __exit__(self, *a):
            if self.vt is not None:
                self.vt.atomic -= 1

    orig = {"then": Signal.then, "go": Signal.go, "ngo": signals.Never.go, "remove": Signal.remove_then, "bool": Signal.__bool__,
            "or": Signal.__or__, "and": Signal.__and__, "orinit": OrSignal.__init__, "andinit": AndSignals.__init__, "wait": Signal.wait, "cleanup": OrSignal.cleanup}

    def active():
        return ds.CUR is sched and sched.me() is not None and not sched.abort

    def then_w(self, target, error=signals.standard_warning):
        if not active() or id(self) not in sid:
            return orig["then"](self, target, error)
        sched.yield_point(("m2", "then"))
        with Atomic():
            step("thenJ %d %s" % (sid[id(self)], jobdesc(target)))
            return orig["then"](self, Wrapped(target), error)

    def go_w(self):
        if not active() or id(self) not in sid:
            return orig["go"](self)
        sched.yield_point(("m2", "go"))
        with Atomic():
            z = sid[id(self)]
            step("goS %d" % z)
            if z in info and not ds.raw(self, "_go"):
                info[z]["go"] = True
                info[z]["direct"] = sys._getframe(1).f_code.co_name not in ("__call__", "done")
            return orig["go"](self)

    def never_go_w(self):
        if active() and id(self) in sid:
            sched.yield_point(("m2", "go"))
            step("goS %d" % sid[id(self)])
        return orig["ngo"](self)

    def remove_w(self, target):
        if not active() or id(self) not in sid:
            return orig["remove"](self, target)
        sched.yield_point(("m2", "remove"))
        with Atomic():
            step("removeJ %d %s" % (sid[id(self)], jobdesc(target)))
            return orig["remove"](self, target)

    def bool_w(self):
        v = ds.raw(self, "_go")
        if active() and sys._getframe(1).f_code.co_name == "__or__":
            ctx = tls.get(sched.me().name)
            if ctx is not None and id(self) in sid:
                sched.yield_point(("m2", "test"))
                v = ds.raw(self, "_go")
                ctx[2] += 1
                step("orTest%d %d %d" % (ctx[2], ctx[0], ctx[1]))
        return v

    def or_w(self, other):
        if not active() or not isinstance(other, Signal) or id(self) not in sid or id(other) not in sid:
            return orig["or"](self, other)
        me = sched.me().name
        tls[me] = [sid[id(self)], sid[id(other)], 0]
        try:
            out = orig["or"](self, other)
        finally:
            tls.pop(me, None)
        if out is signals.DONE:
            sched.yield_point(("m2", "ret"))
            step("retDone")
        else:
            sched.yield_point(("m2", "ret"))
            step("ret %d" % sid[id(out)])
        return out
    or_w.__name__ = "__or__"

    def orinit_w(self, signal, dependencies):
        if not active():
            return orig["orinit"](self, signal, dependencies)
        sched.yield_point(("m2", "orNew"))
        x, y = sid[id(dependencies[0])], sid[id(dependencies[1])]
        z = track(signal, "or", (x, y))
        oid[id(self)] = st["nor"]
        st["nor"] += 1
        step("orNew %d %d" % (x, y))
        orig["orinit"](self, signal, dependencies)
        watch(signal, z)             # registered after OrSignal's own weak reference: called before it

    def cleanup_w(self, _=None):
        if _ is not None and active():
            # called by the weak reference of the composite (not as a registered job): the model's collect pushes this run
            step("run orCleanup %d" % oid.get(id(self), -1))
        return orig["cleanup"](self, _)

    def and_w(self, other):
        if not active() or not isinstance(other, Signal) or id(self) not in sid or id(other) not in sid:
            return orig["and"](self, other)
        out = orig["and"](self, other)
        sched.yield_point(("m2", "ret"))
        step("ret %d" % sid[id(out)])
        return out

    def andinit_w(self, signal, count, dependencies=None):
        deps = dependencies
        fl = None
        if deps is None:
            fl = sys._getframe(1).f_locals          # an AndSignals built by __and__ without an operand list
            if sys._getframe(1).f_code.co_name == "__and__" and "other" in fl:
                deps = (fl.get("self"), fl.get("other"))
        if not active() or deps is None or id(deps[0]) not in sid or id(deps[1]) not in sid:
            return orig["andinit"](self, signal, count, dependencies) if dependencies is not None else orig["andinit"](self, signal, count)
        sched.yield_point(("m2", "andNew"))
        x, y = sid[id(deps[0])], sid[id(deps[1])]
        del deps, fl
        z = track(signal, "and", (x, y))
        watch(signal, z)
        nid[id(self)] = st["nand"]
        st["nand"] += 1
        step("andNew %d %d" % (x, y))
        return orig["andinit"](self, signal, count, dependencies) if dependencies is not None else orig["andinit"](self, signal, count)

    def wait_w(self, till=None):
        if active() and till is None:
            # registering the waiter happens under the signal's lock: keep that section un-pre-empted, so that a go()
            # section never finds the lock taken (parking on the waiter's own lock still blocks as usual)
            with Atomic():
                r = orig["wait"](self, till)
        else:
            r = orig["wait"](self, till)
        if active() and till is None and id(self) in sid and sid[id(self)] != 0:
            step("waitS %d" % sid[id(self)])
        return r

    class YieldSlot(object):
        """AndSignals.remaining in fine mode: a pre-emption point before every read and write"""
        def __init__(self, desc):
            self.desc = desc

        def __get__(self, obj, typ=None):
            if obj is None:
                return self
            if active():
                sched.yield_point(("m2", "R-remaining"))
            return self.desc.__get__(obj, typ)

        def __set__(self, obj, value):
            if active():
                sched.yield_point(("m2", "W-remaining"))
            self.desc.__set__(obj, value)
    rem_desc = AndSignals.__dict__["remaining"]
    if fine:
        AndSignals.remaining = YieldSlot(rem_desc)

    Signal.then, Signal.go, signals.Never.go, Signal.remove_then = then_w, go_w, never_go_w, remove_w
    Signal.__bool__, Signal.__or__, Signal.__ror__, Signal.__and__ = bool_w, or_w, or_w, and_w
    OrSignal.__init__, AndSignals.__init__, Signal.wait = orinit_w, andinit_w, wait_w
    OrSignal.cleanup = cleanup_w

    vars_ = {}             # the program's variables: the only strong references outside the library

    class UserJob(object):
        def __init__(self, k):
            self.k = k

        def __call__(self):
            pass

    def observe():
        for z in sorted(info):
            r = refs.get(z)
            o = r() if r is not None else None
            if o is None:
                continue
            line("obs %d go=%d jobs=%d alive=1" % (z, 1 if ds.raw(o, "_go") else 0, len(jobs_of(o))))
            del o

    def zid(v):
        o = vars_.get(v)
        return sid.get(id(o)) if o is not None else None

    def body(ti, ops):
        def run():
            for op in ops:
                k = op[0]
                if k in ("or", "and"):
                    _, v, a, b = op
                    if zid(a) is None or zid(b) is None or v in vars_:
                        continue
                    line("call %d %s %d %d" % (ti, "mkOr" if k == "or" else "mkAnd", zid(a), zid(b)))
                    vars_[v] = (vars_[a] | vars_[b]) if k == "or" else (vars_[a] & vars_[b])
                elif k == "nest":
                    _, v, how, a, b, c = op
                    if zid(a) is None or zid(b) is None or zid(c) is None or v in vars_:
                        continue
                    tmp = "tmp%d_%d" % (ti, v)
                    line("call %d %s %d %d" % (ti, "mkAnd" if how == "and-or" else "mkOr", zid(a), zid(b)))
                    vars_[tmp] = (vars_[a] & vars_[b]) if how == "and-or" else (vars_[a] | vars_[b])
                    if zid(tmp) in (None, 0) or zid(c) is None:
                        drop(tmp)
                        continue
                    line("call %d %s %d %d" % (ti, "mkAnd" if how == "or-and" else "mkOr", zid(tmp), zid(c)))
                    vars_[v] = (vars_[tmp] & vars_[c]) if how == "or-and" else (vars_[tmp] | vars_[c])
                    drop(tmp)
                elif k == "await":
                    sched.wait_cond(lambda: op[1] in vars_)
                elif k == "go":
                    if zid(op[1]) is None:
                        continue
                    line("call %d go %d" % (ti, zid(op[1])))
                    vars_[op[1]].go()
                elif k == "thenuser":
                    if zid(op[1]) is None:
                        continue
                    line("call %d thenUser %d %d" % (ti, zid(op[1]), 7))
                    vars_[op[1]].then(UserJob(7))
                elif k == "drop":
                    drop(op[1])
                elif k == "waitor":
                    _, a, b = op
                    if zid(a) is None or zid(b) is None:
                        continue
                    line("call %d waitOr %d %d" % (ti, zid(a), zid(b)))
                    vars_[a].wait(till=vars_[b])
                observe()
        return run

    def drop(v):
        sched.yield_point(("m2", "drop"))
        o = vars_.get(v)
        if o is None:
            return
        z = sid.get(id(o))
        del o
        if z is not None and z >= 2:
            line("release %d" % z)
        vars_.pop(v, None)          # the reference count may reach zero here: the weak reference announces it

    def env():
        # the timer daemon / other parts of the program eventually trigger every leaf that is still alive
        for v in range(sc["leaves"]):
            o = vars_.get(v)
            if o is not None and id(o) in sid:
                line("call %d go %d" % (NT - 1, sid[id(o)]))
                o.go()
            del o
        observe()

    try:
        for v in range(sc["leaves"]):
            s = Signal("leaf%d" % v)
            z = track(s, "leaf")
            watch(s, z)
            vars_[v] = s
            del s
            line("newleaf")
        for ti, ops in enumerate(sc["threads"]):
            sched.spawn("t%d" % ti, body(ti, ops))
        if sc["fire_all"]:
            sched.spawn("t%d" % (NT - 1), env, background=False)
        outcome = sched.run()
        viol = st["viol"]
        if outcome == "done":
            # quiescent: the independent monitors
            live = {}
            for z, r in refs.items():
                o = r()
                if o is not None:
                    live[z] = o
            truth = {z: (bool(ds.raw(live[z], "_go")) if z in live else info[z]["go"]) for z in info}
            truth[0], truth[1] = True, False
            for z, o in live.items():
                inf = info[z]
                if inf["kind"] == "or" and not inf["direct"]:
                    want = truth[inf["ops"][0]] or truth[inf["ops"][1]]
                    if truth[z] != want:
                        viol.append("C03: composite s%d = s%d | s%d reads %s but its operands read %s, %s"
                                    % (z, inf["ops"][0], inf["ops"][1], truth[z], truth[inf["ops"][0]], truth[inf["ops"][1]]))
                if inf["kind"] == "and" and not inf["direct"]:
                    want = truth[inf["ops"][0]] and truth[inf["ops"][1]]
                    if truth[z] != want:
                        viol.append("C04: composite s%d = s%d & s%d reads %s but its operands read %s, %s"
                                    % (z, inf["ops"][0], inf["ops"][1], truth[z], truth[inf["ops"][0]], truth[inf["ops"][1]]))
                if inf["kind"] in ("or", "and") and not truth[z]:
                    for d in inf["ops"]:
                        if d >= 2 and d not in live and not truth[d]:
                            viol.append("%s: operand s%d of the live, untriggered composite s%d = s%d %s s%d was freed and can never trigger"
                                        % ("C03" if inf["kind"] == "or" else "C04", d, z, inf["ops"][0], "|" if inf["kind"] == "or" else "&", inf["ops"][1]))
            for z, o in live.items():
                hooks = sum(1 for j in jobs_of(o) if isinstance(getattr(j, "target", j), OrSignal))
                built_on = sum((1 if info[c]["ops"][0] == z else 0) + (1 if info[c]["ops"][1] == z else 0)
                               for c in live if info[c]["kind"] == "or" and not truth[c])
                if hooks > built_on:
                    viol.append("C15: signal s%d carries %d OR hooks but only %d live untriggered composites are built on it" % (z, hooks, built_on))
            # the same bound over what the PROGRAM can still reach: the signals it holds, and the operands (through any number of
            # levels) of untriggered composites among them — a triggered composite has let go of its operands, so an inner
            # composite that only it referred to is gone, and its hooks with it
            held = set(z for z, o in live.items() if any(o is v for v in vars_.values()))
            zid_of = dict((id(o), z) for z, o in live.items())
            reach, todo = set(), list(held)
            while todo:
                c = todo.pop()
                if c in reach:
                    continue
                reach.add(c)
                if c in info and info[c]["kind"] in ("or", "and") and not truth[c]:
                    todo.extend(d for d in info[c]["ops"] if d >= 2)
                # the callbacks waiting on a reachable signal hold their objects strongly: an AndSignals its composite and its
                # operands (a dropped AND composite lives on while an operand can still count it down), an OrSignal its operands
                # (its composite only weakly)
                for j in (jobs_of(live[c]) if c in live else []):
                    owner = getattr(getattr(j, "target", j), "__self__", getattr(j, "target", j))
                    objs = []
                    if isinstance(owner, AndSignals):
                        objs = [owner.signal] + list(owner.dependencies or [])
                    elif isinstance(owner, OrSignal):
                        objs = list(getattr(owner, "dependencies", None) or [])
                    for x in objs:
                        if id(x) in zid_of:
                            todo.append(zid_of[id(x)])
            for z, o in live.items():
                if z not in reach:
                    continue        # garbage the program cannot reach (a cycle only the cyclic collector frees) is not a long-lived signal
                hooks = sum(1 for j in jobs_of(o) if isinstance(getattr(j, "target", j), OrSignal))
                owners = sum((1 if info[c]["ops"][0] == z else 0) + (1 if info[c]["ops"][1] == z else 0)
                             for c in reach if c in info and info[c]["kind"] == "or" and not truth[c])
                if hooks > owners:
                    viol.append("C15: signal s%d carries %d OR hooks but the program can reach only %d untriggered composites built on "
                                "it: a composite that was triggered, or dropped, still keeps its operands hooked" % (z, hooks, owners))
            live.clear()
        # outcome "stuck": a wait(till=) nobody releases; the driver checks that the model is stuck in the same way
    finally:
        Signal.then, Signal.go, signals.Never.go, Signal.remove_then = orig["then"], orig["go"], orig["ngo"], orig["remove"]
        Signal.__bool__, Signal.__or__, Signal.__ror__, Signal.__and__ = orig["bool"], orig["or"], orig["or"], orig["and"]
        OrSignal.__init__, AndSignals.__init__, Signal.wait = orig["orinit"], orig["andinit"], orig["wait"]
        OrSignal.cleanup = orig["cleanup"]
        AndSignals.remaining = rem_desc
        vars_.clear()
        gc.enable()
    lines.append("end %s" % outcome)
    for vt in sched.vts:
        if vt.exc is not None:
            viol.append("unexpected exception in %s: %r" % (vt.name, vt.exc))
    return {"lines": lines, "outcome": outcome, "monitor": sorted(set(viol)), "choices": list(sched.choices), "cand_counts": list(sched.cand_counts), "steps": sched.steps,
            "switches": sched.context_switches, "stuck": [vt.name for vt in sched.stuck]}


def constants_monitor():
    """`|` and `&` with None / True / False / DONE / NEVER (C03, C04): identities of the real operators"""
    from mo_threads import signals
    Signal, DONE, NEVER = signals.Signal, signals.DONE, signals.NEVER
    viol = []
    x = Signal("x")
    checks = [
        ("x | None is x", (x | None) is x), ("x | False is x", (x | False) is x), ("x | True is DONE", (x | True) is DONE),
        ("None | x is x", (None | x) is x), ("x | DONE is DONE", (x | DONE) is DONE),
        ("x & None is x", (x & None) is x), ("x & True is x", (x & True) is x), ("x & False is NEVER", (x & False) is NEVER),
    ]
    for name, ok in checks:
        if not ok:
            viol.append(("C04" if "&" in name else "C03") + ": " + name + " does not hold")
    c = x | NEVER
    if bool(c):
        viol.append("C03: x | NEVER is true before x")
    x.go()
    if not bool(c):
        viol.append("C03: x | NEVER is false after x triggered")
    y = Signal("y")
    d = y & NEVER
    y.go()
    if bool(d):
        viol.append("C04: y & NEVER became true")
    viol.extend(operand_table_monitor())
    return viol


def operand_table_monitor():
    """every kind of operand on either side of | and & (a fresh signal, a triggered one, DONE, NEVER, None, Null, True, False): the
    result reads as the Boolean function of its operands says, before and after each fresh operand is triggered, and a callback
    on it runs exactly when it turns true.  None / Null are absent operands; True / False are the constants."""
    from mo_threads import signals
    from mo_dots import Null
    Signal, DONE, NEVER = signals.Signal, signals.DONE, signals.NEVER
    viol = []
    kinds = ["fresh", "fired", "DONE", "NEVER", "None", "Null", "True", "False"]

    def make(kind, name):
        if kind == "fresh":
            return Signal(name)
        if kind == "fired":
            s = Signal(name)
            s.go()
            return s
        return {"DONE": DONE, "NEVER": NEVER, "None": None, "Null": Null, "True": True, "False": False}[kind]

    def truth(kind, v, op):
        if kind in ("None", "Null"):
            return None                     # absent
        if kind in ("True", "False"):
            return kind == "True"
        return bool(v)

    for op in "|&":
        for ka in ("fresh", "fired", "DONE", "NEVER"):          # the left operand is a signal
            for kb in kinds:
                a, b = make(ka, "a"), make(kb, "b")
                try:
                    e = (a | b) if op == "|" else (a & b)
                except Exception as cause:   # noqa
                    viol.append("%s: %s %s %s raised %r" % ("C03" if op == "|" else "C04", ka, op, kb, cause))
                    continue
                ran = []
                if isinstance(e, Signal):
                    e.then(lambda: ran.append(1))

                def want():
                    ta, tb = truth(ka, a, op), truth(kb, b, op)
                    vals = [t for t in (ta, tb) if t is not None]
                    return any(vals) if op == "|" else all(vals)

                def check(when):
                    w = want()
                    if bool(e) != w:
                        viol.append("%s: (%s %s %s) reads %s %s, its operands make it %s" % ("C03" if op == "|" else "C04", ka, op, kb, bool(e), when, w))
                        return False
                    if isinstance(e, Signal) and (len(ran) != (1 if w else 0)):
                        viol.append("%s: (%s %s %s) reads %s %s but its callback ran %d times" % ("C03" if op == "|" else "C04", ka, op, kb, w, when, len(ran)))
                        return False
                    return True
                if not check("when built"):
                    continue
                for nm, k, v in (("b", kb, b), ("a", ka, a)):
                    if k == "fresh":
                        v.go()
                        if not check("after %s was triggered" % nm):
                            break
    # a constant on the left (the reflected operator)
    for kl in ("None", "False", "True"):
        x = Signal("x")
        try:
            e = make(kl, "l") | x
            w0 = (kl == "True")
            if bool(e) != w0:
                viol.append("C03: (%s | fresh) reads %s when built" % (kl, bool(e)))
            x.go()
            if not bool(e):
                viol.append("C03: (%s | fresh) is false after the signal was triggered" % kl)
        except Exception as cause:   # noqa
            viol.append("C03: %s | fresh raised %r" % (kl, cause))
    return viol
