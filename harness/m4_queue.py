"""
M4 correspondence + monitors for C07/C08/C09: the REAL mo_threads.queues.Queue (real Lock, Signal, OrSignal
underneath) under the deterministic scheduler, against Model/Queue.lean.
Events of the model's granularity: acquire/release of the queue's mutex, every read of `closed` / of the
caller's till made by a Queue method, every read of the deque's length, every deque mutation, close.
"""
import sys
from collections import deque

from . import detsched as ds

STOP = "please_stop"
QUEUE_FUNCS = {"add", "push", "push_all", "extend", "_wait_for_queue_space", "pop", "pop_all", "pop_one", "__len__",
               "qsize", "empty", "full", "put", "get", "join", "__nonzero__"}


def _caller_is_queue_method(depth=2):
    f = sys._getframe(depth)
    return f.f_code.co_name in QUEUE_FUNCS and f.f_code.co_filename.endswith("queues.py")


class TracedDeque(deque):
    """the queue's deque: every length test and mutation is logged.  In the code as it stands they all happen inside the
    queue's lock; the first access made WITHOUT the lock marks the deque as exposed, and from then on every access is a
    pre-emption point (so a lock-free fast path racing with a locked copy-then-clear can be explored)."""
    sched = None
    guard = None        # the SchedLock of the queue's Lock
    exposed = False

    def _emit(self, *ev):
        s = ds.CUR
        if s is not None and s.me() is not None:
            s.emit("dq", *ev)

    def _pre(self, op):
        s = ds.CUR
        if s is None or s.me() is None or self.guard is None:
            return
        if not self.exposed and self.guard.owner is not s.me() and _caller_is_queue_method(3):
            self.exposed = True
        if self.exposed:
            s.yield_point(("dq", op))

    def __len__(self):
        q = _caller_is_queue_method()
        if q:
            self._pre("len")
        n = deque.__len__(self)
        if q:
            self._emit("len", n)
        return n

    def __bool__(self):
        q = _caller_is_queue_method()
        if q:
            self._pre("len")
        n = deque.__len__(self)
        if q:
            self._emit("len", n)
        return n > 0

    def __iter__(self):
        if _caller_is_queue_method():
            self._pre("iter")
        return deque.__iter__(self)

    monitor = None      # called with (value, length before) by append()

    def append(self, v):
        self._pre("append")
        self._emit("append", v)
        if self.monitor is not None:
            self.monitor(v, deque.__len__(self))
        deque.append(self, v)

    def appendleft(self, v):
        self._pre("appendleft")
        self._emit("appendleft", v)
        deque.appendleft(self, v)

    def extendleft(self, vs):
        vs = list(vs)
        self._pre("extendleft")
        self._emit("extendleft", vs)
        deque.extendleft(self, vs)

    def popleft(self):
        self._pre("popleft")
        v = deque.popleft(self)
        self._emit("popleft", v)
        return v

    def clear(self):
        self._pre("clear")
        self._emit("clear", list(deque.__iter__(self)))
        deque.clear(self)


def make_flag_class(signals):
    class TracedFlag(signals.Signal):
        """a Signal whose truth tests made by Queue methods are logged (closed / caller's till)"""
        __slots__ = ["_vtag"]

        def __bool__(self):
            v = ds.raw(self, "_go")
            if _caller_is_queue_method():
                s = ds.CUR
                if s is not None and s.me() is not None:
                    s.yield_point(("Rflag", self))
                    v = ds.raw(self, "_go")
                    s.emit("flag", self._vtag, bool(v))
            return v

        def go(self):
            # `self.closed.go()` for a stop marker inside an extend() batch: a step of its own even when the queue is closed already
            f = sys._getframe(1)
            if f.f_code.co_name == "extend" and f.f_code.co_filename.endswith("queues.py"):
                s = ds.CUR
                if s is not None and s.me() is not None:
                    s.emit("flaggo", self._vtag, bool(ds.raw(self, "_go")))
            return signals.Signal.go(self)
    return TracedFlag


OPS = ["add", "add_till", "add_force", "push", "extend", "pop", "pop_till", "pop_one", "pop_all", "len", "close", "add_stop"]


def gen_observers(rng):
    """C07: threads that only look (len, pop_all) while others change the queue in several steps (extend of a batch, a pop_all that
    snapshots and clears): what they see must be a state the queue has in some sequential order of the calls"""
    val = [0]

    def nv():
        val[0] += 1
        return val[0]
    threads = [[["extend", [nv() for _ in range(rng.randint(2, 4))]]]]
    if rng.random() < 0.5:
        threads.append([["extend", [nv() for _ in range(rng.randint(2, 3))]]])
    if rng.random() < 0.5:
        threads.append([["add", nv()]] + ([["add", nv()]] if rng.random() < 0.5 else []))
    for _ in range(rng.randint(1, 2)):
        threads.append([[rng.choice(["len", "len", "pop_all"])] for _ in range(rng.randint(1, 2))])
    rng.shuffle(threads)
    prefill = [nv() for _ in range(rng.choice([0, 1, 2]))]
    return {"max": 1024, "threads": threads, "fire": [], "ntills": 0, "prefill": prefill, "allow": False,
            "close_at_end": rng.random() < 0.3, "silent": True, "nstall": 0}


def gen_scenario(rng, prop="C07"):
    if prop == "C07" and rng.random() < 0.15:
        return gen_observers(rng)
    maxs = rng.choice([1, 1, 2, 2, 3, 1024])
    nthreads = rng.randint(2, 5)
    ntills = 0
    threads = []
    val = [0]

    def nv():
        val[0] += 1
        return val[0]
    if prop == "C08":
        w = [4, 4, 1, 1, 1, 3, 2, 1, 1, 1, 0, 0]
        maxs = rng.choice([1, 1, 2, 3])
    elif prop == "C09":
        w = [3, 1, 0, 1, 1, 5, 3, 1, 1, 1, 3, 1]
    else:
        w = [4, 2, 1, 2, 2, 5, 3, 1, 1, 1, 1, 0]
    for t in range(nthreads):
        ops = []
        for _ in range(rng.randint(1, 3)):
            op = rng.choices(OPS, w)[0]
            if op in ("add", "add_force", "push"):
                ops.append([op, nv()])
            elif op == "add_till":
                ops.append([op, nv(), ntills])
                ntills += 1
            elif op == "extend":
                batch = [nv() for _ in range(rng.randint(1, 3))]
                if rng.random() < (0.35 if prop == "C09" else 0.08):
                    batch.insert(rng.randint(0, len(batch)), 0)       # 0 = PLEASE_STOP inside the batch
                ops.append([op, batch])
            elif op == "pop_till":
                ops.append([op, ntills])
                ntills += 1
            else:
                ops.append([op])
        threads.append(ops)
    fire = [x for x in range(ntills) if rng.random() < 0.7]
    rng.shuffle(fire)
    prefill = [nv() for _ in range(rng.choice([0, 0, 1, 2]))]
    prefill = prefill[:maxs]
    silent = rng.random() < (0.45 if prop in ("C08", "C20") else 0.7)
    return {"max": maxs, "threads": threads, "fire": fire, "ntills": ntills, "prefill": prefill,
            "allow": rng.random() < 0.15, "close_at_end": rng.random() < 0.5,
            "silent": silent, "nstall": 0 if silent else rng.choice([0, 1, 2, 3])}


def gen_c20(rng, join=False):
    """C20 on queues: threads parked in pop() on an empty queue / in add() on a full one, with little or no other activity;
    join=True: a thread parked in Queue.join() on a closed queue that still holds values (not part of the Lean model: monitors only)"""
    if join:
        sc = {"max": 4, "threads": [[["close"], ["join"]]], "fire": [], "ntills": 0, "prefill": [100, 101][:rng.randint(1, 2)], "allow": False,
              "close_at_end": False, "silent": rng.random() < 0.5, "nstall": 0, "c20": True}
        if rng.random() < 0.5:
            sc["threads"].append([["pop"]])
        return sc
    kind = rng.choice(["idle", "idle", "full", "full", "mixed", "timed", "timed"])
    silent = rng.random() < 0.4
    sc = {"max": 1, "threads": [], "fire": [], "ntills": 0, "prefill": [], "allow": False, "close_at_end": False,
          "silent": silent, "nstall": 0 if silent else rng.choice([0, 1, 2, 3]), "c20": True}
    if kind == "idle":
        for _ in range(rng.randint(1, 3)):
            sc["threads"].append([["pop"]])
    elif kind == "full":
        sc["prefill"] = [100]
        for i in range(rng.randint(1, 2)):
            sc["threads"].append([["add", i + 1]])
    elif kind == "timed":
        # ONE thread parked with a time limit that runs out while nothing else happens: it leaves (raises / returns None), it does
        # not stay and go round its loop on a till that has fired
        sc["ntills"] = 1
        sc["fire"] = [0]
        if rng.random() < 0.6:
            sc["prefill"] = [100]
            sc["threads"].append([["add_till", 1, 0]])
        else:
            sc["threads"].append([["pop_till", 0]])
    else:
        sc["prefill"] = [100]
        sc["threads"].append([["add", 1]])
        sc["threads"].append([["pop"], ["pop"], ["pop"]])
        if rng.random() < 0.5:
            sc["threads"].append([["len"]])
    return sc


def shape(sc):
    ab = {"add": "a", "add_till": "A", "add_force": "f", "push": "p", "extend": "e", "pop": "o", "pop_till": "O",
          "pop_one": "1", "pop_all": "*", "len": "l", "close": "c", "add_stop": "S", "join": "j"}
    return "m%d:%s:f%d%s%s" % (sc["max"], "/".join("".join(ab[o[0]] for o in t) for t in sc["threads"]), len(sc["fire"]),
                               ":C" if sc["close_at_end"] else "", "" if sc.get("silent", True) else ":loud%d" % sc.get("nstall", 0))


def gen_long_idle(rng):
    """a consumer blocked in pop() without a till on an empty, open queue for more than ten (virtual) minutes — longer than
    any default deadline a Queue method might be tempted to invent — then a value arrives"""
    return {"max": rng.choice([1, 4]), "threads": [[["pop"]]], "fire": [], "ntills": 0, "prefill": [], "allow": False, "close_at_end": False,
            "silent": True, "nstall": 0, "late_add": [605.0 + rng.randint(0, 3), 7]}     # (silent: the real Till class stays in place)


def run_scenario(sc, chooser=None, seed=0, max_steps=6000):
    ds.install()
    ds.reset_globals()
    from mo_threads import queues, signals, lock as lockmod
    if sc.get("late_add"):
        max_steps = 120000
    sched = ds.Sched(chooser=chooser, seed=seed, max_steps=max_steps, horizon=(sc["late_add"][0] + 2.0 if sc.get("late_add") else 1.0))
    Flag = make_flag_class(signals)
    please_stop_timers, _ = ds.start_timers(sched)
    st = {"viol": [], "hist": [], "results": {}, "maxlen_open": 0}

    silent = sc.get("silent", True)
    st.update({"stalls": [], "stall_parked": set(), "alerts": 0, "external": 0, "rewaits": {}, "in_wait": set(), "livelock": None,
               "cur": {}, "fired_parks": {}})
    q = queues.Queue("Q", max=sc["max"], silent=silent, allow_add_after_close=sc["allow"])
    q.closed = Flag("closed")
    q.closed._vtag = "closed"
    q.closed.lock = ds.SchedLock()
    q.queue = TracedDeque(sc["prefill"])
    q.lock.lock = ds.SchedLock()
    q.queue.guard = q.lock.lock

    def append_monitor(v, n_before):
        me = sched.me()
        cur = st["cur"].get(me.name) if me is not None else None
        if cur is not None and cur[0] in ("add", "add_till") and n_before >= sc["max"] and not bool(ds.raw(q.closed, "_go")):
            st["viol"].append("C08: add(%s) without force appended to an open queue that already held %d values (max %d): it did "
                              "not wait for room" % (v, n_before, sc["max"]))
    q.queue.monitor = append_monitor
    sched.tag(q.lock.lock, "M")
    sched.trace(q.closed, "closed")
    tills = []
    for x in range(sc["ntills"]):
        t = Flag("T%d" % x)
        t._vtag = "T%d" % x
        sched.trace(t, "T%d" % x)
        tills.append(t)

    # log what lock.wait() returned inside queue methods
    orig_wait = lockmod.Lock.wait

    def wait_wrapper(self, till=None):
        me = sched.me()
        if self is q.lock:
            cur = st["cur"].get(me.name)
            if cur is not None and cur[0] == "add_till" and bool(ds.raw(tills[cur[2]], "_go")):
                # the caller's till has fired.  Once is a race (it fired between the test at the head of the loop and here);
                # twice means the loop went round without looking at it
                key = (me.name, id(cur))
                st["fired_parks"][key] = st["fired_parks"].get(key, 0) + 1
                if st["fired_parks"][key] == 2:
                    st["viol"].append("C08: producer %s parks again although the till of its add() fired before its previous "
                                      "wake-up: the timeout is not looked at" % me.name[1:])
                    st["viol"].append("C20: producer %s keeps going round its wait loop on a till that has already fired (every wait "
                                      "returns at once) instead of leaving" % me.name[1:])
            sched.note("park", me.name[1:])
            st["in_wait"].add(me)
            if till is not None and any(till is x for _, x in st["stalls"]):
                st["stall_parked"].add(id(till))
            ext_before = st["external"]
        try:
            r = orig_wait(self, till=till)
        finally:
            if self is q.lock:
                st["in_wait"].discard(me)
                if till is not None:
                    st["stall_parked"].discard(id(till))     # an old stall timer firing later resumes nobody: not an event
        if self is q.lock and not sched.abort:
            sched.note("wake", me.name[1:], bool(r))
            # C20: a thread that keeps coming back from lock.wait() although nothing happened in between
            # (no deque change, no close, no till / stall timer fired, no other thread left the lock)
            if st["external"] == ext_before:
                n = st["rewaits"].get(me.name, 0) + 1
                st["rewaits"][me.name] = n
                if n >= (6 if sc.get("c20") else 40) and st["livelock"] is None:
                    st["livelock"] = me.name
            else:
                st["rewaits"][me.name] = 0
        return r
    lockmod.Lock.wait = wait_wrapper

    orig_exit = lockmod.Lock.__exit__

    def exit_wrapper(self, a, b, c):
        if self is q.lock:
            st["external"] += 1        # a thread leaves the `with` block: the one event that may legitimately resume a waiter
        return orig_exit(self, a, b, c)
    lockmod.Lock.__exit__ = exit_wrapper

    # a queue that is not silent parks on a fresh `Till(seconds=5)` every turn: a signal fired by the environment thread
    orig_till, orig_logger = queues.Till, queues.logger

    def stall_timer(seconds=None, till=None, **kw):
        sig = signals.Signal("stall")
        me = sched.me()
        st["stalls"].append((me.name[1:] if me is not None else "?", sig))
        return sig

    class LoggerShim(object):
        def __getattr__(self, k):
            return getattr(orig_logger, k)

        def alert(self, *a, **kw):
            st["alerts"] += 1

    if not silent:
        queues.Till = stall_timer
        queues.logger = LoggerShim()

    def body(ti, ops):
        def run():
            res = st["results"].setdefault(ti, [])
            for op in ops:
                kind = op[0]
                st["cur"][sched.me().name] = op
                h = {"t": ti, "op": op, "call": len(sched.events), "ret": None, "r": None}
                st["hist"].append(h)
                try:
                    if kind == "add":
                        sched.note("call", ti, "add", op[1], 999, 0)
                        q.add(op[1], till=_never)
                        r = "ok"
                    elif kind == "add_till":
                        sched.note("call", ti, "add", op[1], op[2], 0)
                        q.add(op[1], till=tills[op[2]])
                        r = "ok"
                    elif kind == "add_force":
                        sched.note("call", ti, "add", op[1], 999, 1)
                        q.add(op[1], force=True, till=_never)
                        r = "ok"
                    elif kind == "push":
                        sched.note("call", ti, "push", op[1])
                        q.push(op[1])
                        r = "ok"
                    elif kind == "extend":
                        sched.note("call", ti, "extend", ",".join(str(v) for v in op[1]))
                        q.extend([(STOP if v == 0 else v) for v in op[1]])
                        r = "ok"
                        if 0 in op[1] and not ds.raw(q.closed, "_go"):
                            st["viol"].append("C09: extend() of a batch that contains the stop marker returned with the queue still open")
                    elif kind == "pop":
                        sched.note("call", ti, "pop", "-")
                        r = q.pop()
                    elif kind == "pop_till":
                        sched.note("call", ti, "pop", op[1])
                        r = q.pop(till=tills[op[1]])
                    elif kind == "pop_one":
                        sched.note("call", ti, "pop_one")
                        r = q.pop_one()
                    elif kind == "pop_all":
                        sched.note("call", ti, "pop_all")
                        r = q.pop_all()
                    elif kind == "len":
                        sched.note("call", ti, "len")
                        r = len(q)
                    elif kind == "close":
                        sched.note("call", ti, "close")
                        q.close()
                        r = "ok"
                    elif kind == "join":
                        sched.note("call", ti, "join")
                        q.join()
                        r = "ok"
                    elif kind == "add_stop":
                        sched.note("call", ti, "add_stop")
                        q.add(STOP, till=_never)
                        r = "ok"
                        if not bool(ds.raw(q.closed, "_go")):
                            st["viol"].append("C09: add(PLEASE_STOP) returned on thread %d with the queue still open" % ti)
                except ds.SchedAbort:
                    raise
                except Exception as e:
                    msg = str(e)
                    if "timeout" in msg.lower():
                        r = "timeout"
                    elif "closed queue" in msg:
                        r = "closederr"
                    else:
                        r = "error:" + msg[:60]
                if sched.abort:
                    return
                if kind in ("pop", "pop_till", "pop_one") and r is STOP and not bool(ds.raw(q.closed, "_go")):
                    st["viol"].append("C07: %s() returned the stop marker on thread %d although the queue has not been closed (a wake-up that "
                                      "brought no value is not the end of the queue)" % (kind, ti))
                    st["viol"].append("C09: %s() returned the stop marker on thread %d although the queue has not been closed" % (kind, ti))
                rs = fmt_result(r)
                sched.note("ret", ti, kind_name(kind), rs)
                h["ret"] = len(sched.events)
                h["r"] = r
                res.append((op, r))
        return run

    _never = Flag("never-till")
    _never._vtag = "N"

    for ti, ops in enumerate(sc["threads"]):
        sched.spawn("t%d" % ti, body(ti, ops))

    def env():
        for x in sc["fire"]:
            st["external"] += 1
            tills[x].go()
        if sc["close_at_end"]:
            sched.note("call", "env", "close")
            st["external"] += 1
            q.close()
    if sc["fire"] or sc["close_at_end"]:
        sched.spawn("env", env)

    if sc.get("late_add"):
        def late():
            sched.until(sc["late_add"][0])
            h = {"t": 9, "op": ["add", sc["late_add"][1]], "call": len(sched.events), "ret": None, "r": None}
            st["hist"].append(h)
            sched.note("call", 9, "add", sc["late_add"][1], 999, 0)
            st["external"] += 1
            q.add(sc["late_add"][1], till=_never)
            sched.note("ret", 9, "add", "ok")
            h["ret"] = len(sched.events)
            h["r"] = "ok"
            st["results"].setdefault(9, []).append((["add", sc["late_add"][1]], "ok"))
        sched.spawn("t9", late)

    def staller():
        # fires stall timers, oldest first, once their owner is parked on them (a 5 s timer does not expire before that)
        for _ in range(sc.get("nstall", 0)):
            def ready():
                return any(id(x) in st["stall_parked"] and not ds.raw(x, "_go") for _, x in st["stalls"])
            sched.wait_cond(ready)
            for owner, x in st["stalls"]:
                if id(x) in st["stall_parked"] and not ds.raw(x, "_go"):
                    vt = sched.me()
                    vt.atomic += 1            # the trace line and the trigger are one event (this thread runs in the background:
                    try:                      # the run may end between two of its steps)
                        sched.note("env", "stall", owner)
                        st["external"] += 1
                        x.go()
                    finally:
                        vt.atomic -= 1
                    break
    if not silent and sc.get("nstall", 0):
        sched.spawn("staller", staller, background=True)

    st["dqver"] = None

    def on_step(s, vt):
        if not ds.raw(q.closed, "_go"):
            n = deque.__len__(q.queue)
            if n > st["maxlen_open"]:
                st["maxlen_open"] = n
        ver = (tuple(deque.__iter__(q.queue)), bool(ds.raw(q.closed, "_go")))
        if ver != st["dqver"]:
            st["dqver"] = ver
            st["external"] += 1
        if st["livelock"] is not None:
            s.max_steps = min(s.max_steps, s.steps)   # stop the run: busy waiting detected

    sched.on_step = on_step
    try:
        outcome = sched.run()
    finally:
        lockmod.Lock.wait = orig_wait
        lockmod.Lock.__exit__ = orig_exit
        queues.Till, queues.logger = orig_till, orig_logger
    stuck = sorted(int(vt.name[1:]) for vt in sched.stuck if vt.name.startswith("t") and vt.name[1:].isdigit())
    lines = to_lines(sched.events)
    lines.append(" ".join(["end", outcome] + [str(t) for t in stuck]))
    final = list(deque.__iter__(q.queue))
    lines.append("final dq=%s closed=%s" % (fmt_list(final), "True" if ds.raw(q.closed, "_go") else "False"))
    viol = monitors(sc, lines, st, outcome, stuck, final, bool(ds.raw(q.closed, "_go")))
    c20 = []
    if st["livelock"] is not None:
        nwait = len([vt for vt in sched.stuck if vt in st["in_wait"] or st["rewaits"].get(vt.name, 0) > 0])
        msg = ("C20: thread %s keeps returning from lock.wait() inside a Queue method although nothing happened in between (no value "
               "added or removed, no close, no till or stall timer fired, nobody left the lock): %d times in a row" %
               (st["livelock"], st["rewaits"].get(st["livelock"], 0)))
        if nwait >= 2:
            c20.append({"msg": msg, "signature": "C20/two-or-more-waiters-on-one-lock"})
        else:
            viol.append(msg)
    for who, name, clock in getattr(sched, "timed_wakeups", []):
        viol.append("C20: thread %s came back from a timed acquire of %s at t=%s although nothing had happened (polling)" % (who, name, clock))
    for vt in sched.vts:
        if vt.exc is not None:
            viol.append("unexpected exception in %s: %r" % (vt.name, vt.exc))
    return {"lines": lines, "outcome": outcome, "monitor": viol, "c20": c20, "choices": list(sched.choices), "cand_counts": list(sched.cand_counts), "steps": sched.steps,
            "switches": sched.context_switches, "stuck": stuck, "alerts": st["alerts"]}


def kind_name(kind):
    return {"add_till": "add", "add_force": "add", "pop_till": "pop"}.get(kind, kind)


def fmt_list(vs):
    return "[" + ",".join(str(v) for v in vs) + "]"


def fmt_result(r):
    if r is None:
        return "None"
    if r == STOP:
        return "STOP"
    if isinstance(r, list):
        return fmt_list(r)
    return str(r)


def to_lines(events):
    """scheduler events -> protocol lines; `wake t True` becomes `env signal t` placed before the re-acquire"""
    lines = []
    last_acq = {}
    skip_w = {}
    for ev in events:
        if ev[0] == "-":
            if ev[1] == "note":
                ws = [str(w) for w in ev[2:]]
                if ws[0] == "wake":
                    t = ws[1]
                    if ws[2] == "True" and t in last_acq:
                        lines.insert(last_acq[t], "env signal %s" % t)
                        for k in last_acq:
                            if last_acq[k] >= last_acq[t] and k != t:
                                last_acq[k] += 1
                    lines.append("step %s woke %s" % (t, ws[2]))
                elif ws[0] == "park":
                    lines.append("step %s park" % ws[1])
                elif ws[0] == "call" and ws[1] == "env":
                    continue
                else:
                    lines.append(" ".join(ws))
            continue
        who, kind = ev[0], ev[1]
        if not (who.startswith("t") and who[1:].isdigit()):
            if kind == "W" and ev[3] == "_go":
                if ev[2] == "closed":
                    lines.append("env close")
                elif ev[2].startswith("T"):
                    lines.append("env fire %s" % ev[2][1:])
            continue
        t = who[1:]
        if kind in ("acq", "rel"):
            if ev[2] == "M":
                if kind == "acq":
                    last_acq[t] = len(lines)
                lines.append("step %s %s M" % (t, kind))
        elif kind == "dq":
            if ev[2] == "len":
                lines.append("step %s len %d" % (t, ev[3]))
            elif ev[2] in ("append", "appendleft", "popleft"):
                lines.append("step %s %s %s" % (t, ev[2], ev[3]))
            else:
                lines.append("step %s %s %s" % (t, ev[2], fmt_list(ev[3])))
        elif kind == "flag":
            tag = ev[2]
            if tag == "N":
                lines.append("step %s till 999 %s" % (t, ev[3]))
            elif tag == "closed":
                lines.append("step %s closed %s" % (t, ev[3]))
            else:
                lines.append("step %s till %s %s" % (t, tag[1:], ev[3]))
        elif kind == "flaggo" and ev[2] == "closed":
            lines.append("step %s close" % t)
            if not ev[3]:
                skip_w[t] = skip_w.get(t, 0) + 1      # the flag write that follows is this very step
        elif kind == "W" and ev[3] == "_go" and ev[2] == "closed":
            if skip_w.get(t, 0) > 0:
                skip_w[t] -= 1
            else:
                lines.append("step %s close" % t)
    # a close()/add(PLEASE_STOP) on an already closed queue writes nothing: give the model its (idempotent) close step
    out = []
    open_close = {}
    for ln in lines:
        ws = ln.split()
        if ws[0] == "call" and ws[2] in ("close", "add_stop"):
            open_close[ws[1]] = False
        elif ws[0] == "step" and ws[2] == "close" and ws[1] in open_close:
            open_close[ws[1]] = True
        elif ws[0] == "step" and ws[2] == "rel" and open_close.get(ws[1]) is False:
            out.append("step %s close" % ws[1])
            open_close[ws[1]] = True
        elif ws[0] == "ret" and ws[2] in ("close", "add_stop"):
            if open_close.get(ws[1]) is False:
                out.append("step %s close" % ws[1])
            open_close.pop(ws[1], None)
        out.append(ln)
    return out


def linearizable(hist, prefill, final):
    """Wing & Gong search over the call/return history (every call completed): is there a total order that respects real time
    (a call that returned before another was issued comes first) and is a legal history of a sequential FIFO?
    Capacity and blocking are not part of the sequential specification (a blocked call simply linearises later).
    Returns None if linearizable, else a description."""
    ops = [h for h in hist if h["ret"] is not None]
    if len(ops) != len(hist) or len(ops) > 16:
        return None
    n = len(ops)
    before = [[ops[a]["ret"] <= ops[b]["call"] for b in range(n)] for a in range(n)]
    seen = set()

    def apply(state, h):
        k, r = h["op"][0], h["r"]
        if isinstance(r, str) and r in ("timeout", "closederr") or (isinstance(r, str) and r.startswith("error:")):
            return state
        if k in ("add", "add_till", "add_force"):
            return state + (h["op"][1],)
        if k == "extend":
            return state + tuple(v for v in h["op"][1] if v != 0)
        if k == "push":
            return (h["op"][1],) + state
        if k in ("pop", "pop_till"):
            if r is None:
                return state
            if r == STOP:
                return state if not state else None
            return state[1:] if state and state[0] == r else None
        if k == "pop_one":
            if r is None or r == STOP:
                return state if not state else None
            return state[1:] if state and state[0] == r else None
        if k == "pop_all":
            got = tuple(v for v in r if v != STOP)
            return () if got == state else None
        if k == "len":
            return state if r == len(state) else None
        return state      # close / add_stop: no value moves

    def search(done, state):
        if len(done) == n:
            return tuple(final) == state
        key = (done, state)
        if key in seen:
            return False
        seen.add(key)
        for i in range(n):
            if i in done:
                continue
            if any(before[j][i] for j in range(n) if j not in done and j != i):
                continue
            s2 = apply(state, ops[i])
            if s2 is not None and search(done | frozenset([i]), s2):
                return True
        return False

    if search(frozenset(), tuple(prefill)):
        return None
    return "; ".join("t%d %s->%s" % (h["t"], h["op"], fmt_result(h["r"]) if not isinstance(h["r"], str) else h["r"]) for h in ops)[:300]


def monitors(sc, lines, st, outcome, stuck, final, closed):
    """independent of Lean: FIFO/loss/duplication/order, capacity, close semantics — from the recorded history"""
    viol = list(st.get("viol", []))        # what the wrappers noticed while the run was under way
    added = []       # values in linearisation order with side
    popped = []
    spec = list(sc["prefill"])
    for ln in lines:
        ws = ln.split()
        if ws[0] != "step":
            continue
        if ws[2] == "append":
            spec.append(int(ws[3]) if ws[3].isdigit() else ws[3])
        elif ws[2] == "appendleft":
            spec.insert(0, int(ws[3]))
        elif ws[2] == "popleft":
            v = int(ws[3]) if ws[3].isdigit() else ws[3]
            if not spec or spec[0] != v:
                viol.append("C07: popleft returned %s but the FIFO head is %s (history not a legal FIFO)" % (v, spec[:1]))
            if v in spec:
                spec.remove(v)
            popped.append(v)
        elif ws[2] == "clear":
            spec = []
    if spec != final:
        viol.append("C07: final contents %s differ from the sequential replay %s" % (final, spec))
    closing = sc["close_at_end"] or any(op[0] in ("close", "add_stop") or (op[0] == "extend" and 0 in op[1]) for t in sc["threads"] for op in t)
    if outcome == "done" and not closing:      # what a closed queue returns is C09's subject, not part of the FIFO specification
        why = linearizable(st["hist"], list(sc["prefill"]), final)
        if why:
            viol.append("C07: the calls and their results have no FIFO linearisation consistent with real time: " + why)
    # results returned to callers
    returned = []
    for ti, res in st["results"].items():
        for op, r in res:
            k = op[0]
            if k in ("pop", "pop_till", "pop_one") and r is not None and r != STOP:
                returned.append(r)
            if k == "pop_all" and isinstance(r, list):
                returned.extend(r)
            if isinstance(r, str) and r.startswith("error:"):
                viol.append("C07: %s raised %s" % (k, r))
            if k == "pop_till" and r is None and op[1] not in sc["fire"]:
                viol.append("C07: pop(till) returned None although its till never fired")
                if closed:
                    viol.append("C09: a pop() pending at close() returned None instead of the stop marker (its till never fired)")
            if k == "pop" and r is None:
                viol.append("C07: pop() without a till returned None")
                if closed:
                    viol.append("C09: a pop() pending at close() returned None instead of the stop marker")
    if len(set(returned)) != len(returned):
        viol.append("C07: a value was delivered twice: %s" % sorted(returned, key=str))
    all_added = set(sc["prefill"])
    for ti, res in st["results"].items():
        for op, r in res:
            if op[0] in ("add", "add_till", "add_force", "push") and r == "ok":
                all_added.add(op[1])
            if op[0] == "extend" and r == "ok":
                all_added.update(v for v in op[1] if v != 0)
    lost = all_added - set(returned) - set(final)
    if outcome in ("done", "stuck") and lost:
        viol.append("C07: values %s were added but neither delivered nor still queued" % sorted(lost, key=str))
    if st["maxlen_open"] > sc["max"] and not any(op[0] in ("add_force", "extend", "push") for t in sc["threads"] for op in t) and len(sc["prefill"]) <= sc["max"]:
        viol.append("C08: open queue held %d values, max is %d" % (st["maxlen_open"], sc["max"]))
    for ti, res in st["results"].items():
        for op, r in res:
            if op[0] == "add_till" and r == "timeout" and op[2] not in sc["fire"]:
                viol.append("C08: add() raised a timeout although its till never fired")
    if outcome == "stuck":
        for ti in stuck:
            done = len(st["results"].get(ti, []))
            ops = sc["threads"][ti]
            if done < len(ops):
                op = ops[done]
                # a queue that is not silent notices the till at the next stall wake-up (at most 5 s later): the producer
                # is overdue only when the stall timer it is parked on has fired as well
                mine = [x for o, x in st.get("stalls", []) if o == str(ti)]
                resumed = sc.get("silent", True) or (mine and bool(ds.raw(mine[-1], "_go")))
                if op[0] == "add_till" and op[2] in sc["fire"] and len(final) >= sc["max"] and resumed:
                    viol.append("C08: producer %d is still blocked although its till fired" % ti)
                if op[0] in ("add", "add_till") and len(final) < sc["max"] and not closed:
                    viol.append("C08: producer %d is stranded although the queue has room (%d < %d)" % (ti, len(final), sc["max"]))
                if op[0] in ("pop", "pop_till") and closed:
                    viol.append("C09: consumer %d is still blocked after close()" % ti)
                if op[0] == "add_stop":
                    viol.append("C09: thread %d is blocked in add(PLEASE_STOP) (queue %s, %d of max %d values): the stop marker closes the "
                                "queue, it does not wait for room" % (ti, "closed" if closed else "still open", len(final), sc["max"]))
                if op[0] in ("pop", "pop_till") and final:
                    viol.append("C07: consumer %d is blocked although the queue holds %s" % (ti, final))
                if op[0] == "pop_till" and op[1] in sc["fire"]:
                    viol.append("C07: consumer %d is still blocked although its till fired" % ti)
    # close semantics from the per-thread results: after a thread saw STOP it keeps seeing STOP
    late_adds = sc["allow"] or any(op[0] == "add_force" for t in sc["threads"] for op in t)
    for ti, res in ([] if late_adds else st["results"].items()):
        seen_stop = False
        for op, r in res:
            if op[0] in ("pop", "pop_till"):
                if seen_stop and r != STOP:
                    viol.append("C09: pop() returned %r after the stop marker" % (r,))
                if r == STOP:
                    seen_stop = True
            if op[0] in ("add", "add_till", "push") and r == "ok" and closed and not sc["allow"]:
                pass
    return viol
