"""C10 / C11 / C12 plugin: M5 trace acceptance + monitors on the real Thread / MainThread machinery."""
from . import plug

RULE = {
    "C10": "scenario = a random tree (depth <= 3, <= 8 threads) of real mo_threads.Thread programs {spawn child, join child (optionally "
           "with a fired/unfired till), release child, stop child, wait for please_stop, return a value / raise}, the main virtual "
           "thread spawning/stopping/joining top-level threads and finally calling MainThread.stop(); real timer daemon on a virtual "
           "clock; schedule = seeded random/PCT/sticky walk over every lock operation and traced flag access; non-trivial = >=1 "
           "pre-emption inside a threads.py method; distinct = (scenario, schedule) hash",
}
RULE["C11"] = RULE["C10"] + "; C11 profile: stop() calls gated on the completion of other targets so that they race with shutdown blocks"
RULE["C12"] = RULE["C10"] + "; join timing before/while/after completion, timed joins with fired and unfired tills, join_all_threads; plus batches of 2-5 threads (return / raise / late / outliving the limit) joined by join_all_threads with and without a time limit (monitor only)"


class M5(plug.Model):
    name = "m5"
    mode = "TA (trace acceptance, thread-local steps skipped)"

    def run(self, sc, chooser, seed):
        from . import m5_threads
        return m5_threads.run_scenario(sc, chooser=chooser, seed=seed)

    def shape(self, sc):
        from . import m5_threads
        return m5_threads.shape(sc)

    def est_steps(self, sc):
        return 400


class M5B(plug.Model):
    """join_all_threads on a batch with a time limit (monitor only)"""
    name = "m5b"
    mode = "monitor"

    def run(self, sc, chooser, seed):
        from . import m5_threads
        return m5_threads.run_batch_scenario(sc, chooser=chooser, seed=seed)

    def shape(self, sc):
        from . import m5_threads
        return m5_threads.batch_shape(sc)

    def est_steps(self, sc):
        return 400


MODEL = M5()
MODELB = M5B()


def genb(rng, prop, job):
    from . import m5_threads
    return m5_threads.gen_batch(rng)


def gen(rng, prop, job):
    from . import m5_threads
    if job.get("slow_child"):
        return m5_threads.gen_slow_child(rng)
    if job.get("hook"):
        # a shutdown hook (`MAIN_THREAD.please_stop.then(...)`) that starts one more thread under the main thread: monitors only
        sc = m5_threads.gen_scenario(rng, prop)
        sc["hook"] = ([["wait_stop"]] if rng.random() < 0.8 else []) + [["timed", rng.choice([0.5, 0.25])], ["ret", 1]]
        return sc
    return m5_threads.gen_scenario(rng, prop)


def make_jobs(prop, tier, seed):
    jobs = plug.std_jobs(prop, tier, seed, "m5", n_quick=16, per_quick=6, schedules=4)
    jobs.extend(plug.line_jobs(prop, tier, seed))
    if prop == "C12":
        for j in range(4 if tier == "quick" else 24):
            jobs.append({"kind": "explore", "side": "batch", "prop": prop, "seed": seed * 15485863 + j, "scenarios": 8, "schedules": 4, "no_driver": True})
    if prop == "C10":
        for j in range(1 if tier == "quick" else 4):
            jobs.append({"kind": "explore", "slow_child": True, "prop": prop, "seed": seed * 9576890767 + j, "scenarios": 1, "schedules": 1})
    if prop == "C11":
        for j in range(2 if tier == "quick" else 12):
            jobs.append({"kind": "explore", "hook": True, "prop": prop, "seed": seed * 86028157 + j, "scenarios": 8, "schedules": 4, "no_driver": True})
    if tier == "thorough":
        for j in range(24):
            jobs.append({"kind": "pbound", "prop": prop, "seed": seed * 104729 + j, "k": 2, "budget": 1200})
    else:
        jobs.append({"kind": "pbound", "prop": prop, "seed": seed * 104729, "k": 1, "budget": 100})
    return jobs


def search_jobs(prop, tier, seed, corr_fail):
    return plug.std_search_jobs(prop, tier, seed, corr_fail)


def run_job(job):
    if job["kind"] == "pbound":
        return plug.pbound_job(MODEL, plug.smallest_of(gen), job)
    if job.get("side") == "batch":
        return plug.std_job(MODELB, genb, job)
    rp = (job.get("replay") or {}).get("replay") or job.get("replay") or (job.get("failure") or {}).get("replay") or {}
    if rp.get("model") == "m5b":
        if job["kind"] == "shrink":
            return {"failure": job["failure"]}
        res = plug.run_batch(MODELB, job["prop"], [(rp["scenario"], None, 0, rp["choices"])], use_driver=False)
        if "infra_error" in res:
            return res
        hit = res["mon_fail"]
        return {"violated": bool(hit), "message": hit[0]["msg"] if hit else "join_all_threads joined and reported every thread"}
    return plug.std_job(MODEL, gen, job)


def trusted_base(prop):
    return [
        "Lean 4.33 kernel; axioms of every theorem audited to be within {propext, Classical.choice, Quot.sound}",
        "statements in lean/MoThreads/Props/%s.lean" % prop,
        "hand-written model lean/MoThreads/Model/ThreadTree.lean (recursion of stop()/join() flattened into work lists), tied to "
        "/repo/mo_threads/threads.py by trace acceptance of real executions (harness/m5_threads.py): every locked access to a "
        "`children` list with its call site and value, every trigger of please_stop/stopped/joiner_is_waiting, every ALL registry "
        "update, every `stopped` test in join(), thread starts, call results",
        "modelled, not verified: Python's try/finally and exception propagation inside _run/join, dict/list operations, "
        "mo_logs.logger.error raising; Signal/Till/Lock are the real ones (C01-C06, C13)",
    ]


def assumptions(prop):
    return ["children are created by the parent's own target (no registration under a thread whose target has returned)",
            "targets terminate once asked to stop; exceptions derive from Exception"]


for _k in list(RULE):      # RULE-EXTRA: what was added to the exploration after the rounds of seeded changes
    RULE[_k] += "; plus: joins by non-parents, registrations gated on a sibling's end, shutdown hooks starting a thread under main, joins 61-125 s after the end (the sixty seconds of an unjoined thread), a child that takes more than ten minutes, orphans that fail, line-mode jobs; every access to `children` without child_locker is a pre-emption point"
