"""
Proof-side obligations of every check: build the Lean library + driver from the committed sources,
grep for escape hatches, and `#print axioms` of every property theorem (must be a subset of
{propext, Classical.choice, Quot.sound}).  Results are cached by a hash of the Lean sources.
"""
import hashlib
import json
import os
import re
import subprocess
import time

VERIF = os.path.dirname(os.path.dirname(os.path.abspath(__file__)))
LEAN = os.path.join(VERIF, "lean")
WORK = os.path.join(VERIF, "work")
ALLOWED = {"propext", "Classical.choice", "Quot.sound"}
FORBIDDEN = re.compile(r"\b(sorry|admit|native_decide|bv_decide|implemented_by|unsafe)\b|^axiom\s|maxHeartbeats\s+0\b")
DRIVER = os.path.join(LEAN, ".lake", "build", "bin", "driver")


def lean_files():
    out = []
    for root, dirs, files in os.walk(LEAN):
        if ".lake" in root.split(os.sep):
            continue
        for f in files:
            if f.endswith(".lean") or f in ("lakefile.toml",):
                out.append(os.path.join(root, f))
    return sorted(out)


def source_hash():
    h = hashlib.sha256()
    for f in lean_files():
        h.update(f.encode())
        h.update(open(f, "rb").read())
    return h.hexdigest()


def strip_comments(text):
    text = re.sub(r"/-.*?-/", lambda m: "\n" * m.group(0).count("\n"), text, flags=re.S)
    text = re.sub(r"--.*", "", text)
    return text


def property_theorems():
    """{property id: [(fully qualified name, file)]} from lean/MoThreads/Props/*.lean"""
    res = {}
    pdir = os.path.join(LEAN, "MoThreads", "Props")
    lib = set(library_modules())
    for f in sorted(os.listdir(pdir)):
        if not f.endswith(".lean") or "MoThreads.Props." + f[:-5] not in lib:
            continue     # a file nothing imports is not part of the library (work in progress)
        text = strip_comments(open(os.path.join(pdir, f)).read())
        ns = []
        for line in text.splitlines():
            m = re.match(r"\s*namespace\s+(\S+)", line)
            if m:
                ns.append(m.group(1))
                continue
            m = re.match(r"\s*end\s+(\S+)", line)
            if m and ns and ns[-1] == m.group(1):
                ns.pop()
                continue
            m = re.match(r"\s*theorem\s+(C\d\d[A-Za-z]*_\w+)", line)
            if m:
                name = m.group(1)
                pid = re.match(r"(C\d\d)", name).group(1)
                res.setdefault(pid, []).append((".".join(ns + [name]), f))
    return res


def grep_forbidden():
    hits = []
    for f in lean_files():
        if not f.endswith(".lean"):
            continue
        text = strip_comments(open(f).read())
        for i, line in enumerate(text.splitlines(), 1):
            if FORBIDDEN.search(line):
                hits.append("%s:%d: %s" % (os.path.relpath(f, VERIF), i, line.strip()))
    return hits


def run(cmd, cwd, timeout=3600):
    p = subprocess.run(cmd, cwd=cwd, stdout=subprocess.PIPE, stderr=subprocess.STDOUT, text=True, timeout=timeout)
    return p.returncode, p.stdout


def audit(force=False):
    """returns dict(ok, build_ok, forbidden, theorems={pid: [{name, axioms, ok}]}, log)"""
    os.makedirs(WORK, exist_ok=True)
    cache = os.path.join(WORK, "audit.json")
    h = source_hash()
    if not force and os.path.exists(cache) and os.path.exists(DRIVER):
        try:
            c = json.load(open(cache))
            if c.get("hash") == h:
                c["cached"] = True
                return c
        except Exception:
            pass
    t0 = time.time()
    res = {"hash": h, "cached": False}
    rc, out = run(["lake", "build", "MoThreads", "driver"], LEAN)
    res["build_ok"] = rc == 0
    res["log"] = out[-4000:]
    res["forbidden"] = grep_forbidden()
    thms = property_theorems()
    res["theorems"] = {}
    if rc == 0:
        ax_file = os.path.join(WORK, "Axioms.lean")
        with open(ax_file, "w") as f:
            f.write("import MoThreads\n")
            for pid in sorted(thms):
                for name, _ in thms[pid]:
                    f.write("#print axioms %s\n" % name)
        rc2, out2 = run(["lake", "env", "lean", ax_file], LEAN)
        res["axioms_rc"] = rc2
        # parse: "'Name' depends on axioms: [a, b]" or "'Name' does not depend on any axioms"
        found = {}
        for m in re.finditer(r"'([^']+)' depends on axioms:\s*\[([^\]]*)\]", out2, flags=re.S):
            found[m.group(1)] = [a.strip() for a in m.group(2).replace("\n", " ").split(",") if a.strip()]
        for m in re.finditer(r"'([^']+)' does not depend on any axioms", out2):
            found[m.group(1)] = []
        for pid in sorted(thms):
            lst = []
            for name, fn in thms[pid]:
                ax = found.get(name)
                ok = ax is not None and set(ax) <= ALLOWED
                lst.append({"name": name, "file": fn, "axioms": ax, "ok": ok})
            res["theorems"][pid] = lst
        if rc2 != 0:
            res["log"] += "\n" + out2[-3000:]
    res["ok"] = bool(res["build_ok"] and not res["forbidden"]
                     and all(t["ok"] for l in res["theorems"].values() for t in l))
    res["wall_s"] = round(time.time() - t0, 2)
    json.dump(res, open(cache, "w"), indent=1)
    return res


def _drop_stale_build_files():
    """compiled files whose source no longer exists (a renamed or split module) are not part of the library, but
    leanchecker picks up every .olean under the module prefix: remove them"""
    lib = os.path.join(LEAN, ".lake", "build", "lib", "lean")
    for root, _, files in os.walk(lib):
        for f in files:
            base = f.split(".")[0]
            rel = os.path.relpath(os.path.join(root, base), lib)
            if not os.path.exists(os.path.join(LEAN, rel + ".lean")):
                try:
                    os.remove(os.path.join(root, f))
                except OSError:
                    pass


def library_modules(root="MoThreads"):
    """the modules of the library: everything imported, directly or not, from lean/MoThreads.lean (files lying around in the
    source or build directory that nothing imports are not part of what is claimed)"""
    seen, todo = [], [root]
    while todo:
        m = todo.pop()
        if m in seen:
            continue
        path = os.path.join(LEAN, m.replace(".", os.sep) + ".lean")
        if not os.path.exists(path):
            continue
        seen.append(m)
        for line in open(path):
            line = line.strip()
            if line.startswith("import "):
                for w in line.split()[1:]:
                    if w == root or w.startswith(root + "."):
                        todo.append(w)
            elif line and not line.startswith("--") and not line.startswith("/-") and not line.startswith("import"):
                if not line.startswith("set_option") and "import" not in line:
                    pass
    return sorted(seen)


def leanchecker(modules=None):
    """re-check the compiled modules of the library with the independent checker; cached per source hash (work/leanchecker.json)"""
    _drop_stale_build_files()
    modules = list(modules) if modules else library_modules()
    cache = os.path.join(VERIF, "work", "leanchecker.json")
    h = None
    try:
        h = json.load(open(os.path.join(VERIF, "work", "audit.json"))).get("hash")
        c = json.load(open(cache))
        if h and c.get("hash") == h and c.get("modules") == modules and c.get("ok"):
            return c["ok"], c["out"]
    except Exception:
        pass
    rc, out = run(["lake", "env", "leanchecker"] + modules, LEAN, timeout=3600)
    try:
        json.dump({"hash": h, "modules": modules, "ok": rc == 0, "out": out[-2000:]}, open(cache, "w"))
    except Exception:
        pass
    return rc == 0, out[-2000:]


def run_driver(trace_text):
    p = subprocess.run([DRIVER], input=trace_text, stdout=subprocess.PIPE, stderr=subprocess.PIPE, text=True, timeout=600)
    return p.stdout.splitlines()


if __name__ == "__main__":
    import sys
    r = audit(force="--force" in sys.argv)
    print(json.dumps({k: v for k, v in r.items() if k != "log"}, indent=1)[:6000])
    sys.exit(0 if r["ok"] else 1)
