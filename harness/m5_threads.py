"""
M5 correspondence + monitors for C10/C11/C12: the REAL mo_threads.threads (Thread, MainThread, join_all_threads,
start_main_thread, the real timer daemon) under the deterministic scheduler, against Model/ThreadTree.lean.
A scenario is a tree of thread programs; the virtual thread "main" plays the process' main thread (node 0).
"""
import sys

from . import detsched as ds

TIMERS = "timers daemon"
VALUES = [None, 0, 1, 7, "x", [1, 2], {"a": 1}, False, ""]


def gen_program(rng, depth, budget, prop):
    acts = []
    nkids = 0
    n = rng.randint(0, 3 if depth < 2 else (1 if depth < 3 else 0))
    for _ in range(n):
        if budget[0] <= 0:
            break
        budget[0] -= 1
        acts.append(["spawn", gen_program(rng, depth + 1, budget, prop)])
        nkids += 1
        r = rng.random()
        if r < 0.25:
            acts.append(["join", nkids - 1] + ([rng.choice([0, 1])] if rng.random() < 0.2 else []))
        elif r < 0.35:
            acts.append(["release", nkids - 1])
        elif r < (0.6 if prop == "C11" else 0.45):
            acts.append(["stop", nkids - 1] + ([rng.randint(0, 2)] if prop == "C11" and rng.random() < 0.5 else []))
    # a thread created with parent_thread=Null: registered in ALL only (as the pipe threads of a Process are); nobody but
    # MainThread.stop()'s final sweep of the registry stops and joins it
    if rng.random() < (0.3 if prop == "C11" else 0.12):
        leaf = ([["wait_stop"]] if rng.random() < 0.7 else []) + [["ret", rng.randrange(len(VALUES))] if rng.random() < 0.7 else ["raise"]]
        acts.insert(rng.randint(0, len(acts)), ["spawn_orphan", leaf])
    # afterwards: join / stop one of the earlier children while its siblings are still registered (a join that unregisters a
    # child can then race with a stop() walking this thread's children)
    if nkids >= 2 and rng.random() < (0.6 if prop == "C11" else 0.25):
        for _ in range(rng.randint(1, 2)):
            j = rng.randrange(nkids)
            acts.append(["join", j] if rng.random() < 0.7 else ["stop", j])
    if rng.random() < 0.4:
        acts.insert(rng.randint(0, len(acts)), ["wait_stop"])
    # join a thread that is not a child of this one (by creation number, if it exists by then and is not an ancestor):
    # its unregistration from ITS parent then races with that parent registering further children
    if rng.random() < 0.2:
        acts.insert(rng.randint(0, len(acts)), ["join_node", rng.randint(1, 6)])
    if rng.random() < 0.3:
        acts.append(["raise"])
    else:
        acts.append(["ret", rng.randrange(len(VALUES))])
    return acts


def gen_family(rng):
    """C11: a parent with two or three children that joins one of them while somebody stops the parent — a join that
    unregisters a child races with the stop() that walks the parent's children"""
    nk = rng.randint(2, 3)
    prog = []
    for i in range(nk):
        kid = []
        if rng.random() < 0.6:
            kid.append(["wait_stop"])
        kid.append(["ret", rng.randrange(len(VALUES))])
        prog.append(["spawn", kid])
    for _ in range(rng.randint(1, 2)):
        prog.append(["join", rng.randrange(nk)])
    if rng.random() < 0.5:
        prog.append(["wait_stop"])
    prog.append(["ret", 0])
    main = [["spawn", prog], ["stop", 0] + ([rng.randint(0, nk)] if rng.random() < 0.6 else [])]
    if rng.random() < 0.3:
        main.append(["join", 0])
    main.append(["main_stop"])
    return {"main": main}


def gen_timed_family(rng):
    """C12: join(till) of a thread whose children are still running, with a till that has fired or not"""
    kids = []
    for _ in range(rng.randint(1, 2)):
        kids.append(["spawn", [["wait_stop"], ["ret", rng.randrange(len(VALUES))]]])
    prog = kids + ([["wait_stop"]] if rng.random() < 0.7 else []) + [["ret", rng.randrange(len(VALUES))] if rng.random() < 0.8 else ["raise"]]
    main = [["spawn", prog], ["join", 0, rng.choice([1, 1, 0])]]
    if rng.random() < 0.5:
        main.append(["join", 0])
    main.append(["main_stop"])
    return {"main": main}


def gen_cross_join(rng):
    """C10: somebody who is not the parent joins a child (and thereby unregisters it from its parent) while the parent is
    still registering further children"""
    kids = [["spawn", [["ret", rng.randrange(len(VALUES))]]]]
    for i in range(rng.randint(1, 3)):
        # the next registration is held back until the first child (thread 2) has stopped: it then meets the join that unregisters it
        kids.append(["spawn", ([["wait_stop"]] if rng.random() < 0.7 else []) + [["ret", rng.randrange(len(VALUES))]]] + ([2] if i == 0 else []))
    prog = kids + ([["wait_stop"]] if rng.random() < 0.5 else []) + [["ret", rng.randrange(len(VALUES))]]
    main = [["spawn", prog], ["join_node", 2]]
    if rng.random() < 0.4:
        main.append(["join_node", 3])
    main.append(["main_stop"])
    return {"main": main}


def gen_late_join(rng):
    """C12: join() more than a minute after the thread finished — the finished thread has meanwhile given up waiting for a
    joiner, logged its result and (if its parent is a Thread) taken itself out of its parent's list"""
    def leaf():
        return [["ret", rng.randrange(len(VALUES))] if rng.random() < 0.75 else ["raise"]]
    if rng.random() < 0.5:
        # children of the main thread
        main = [["spawn", leaf()]]
        if rng.random() < 0.5:
            main.append(["spawn", leaf()])
        main.append(["sleep", rng.choice([61.0, 75.0, 125.0])])
        main.append(["join", 0])
        if len(main) > 3 and rng.random() < 0.7:
            main.append(["join", 1] if rng.random() < 0.6 else ["join_all"])
        if rng.random() < 0.4:
            main.append(["join", 0])          # a second time
    else:
        # children of a thread that lives on
        prog = [["spawn", leaf()]]
        if rng.random() < 0.5:
            prog.append(["spawn", leaf()])
        prog.append(["sleep", rng.choice([61.0, 75.0])])
        prog.append(["join", 0])
        if len(prog) > 3 and rng.random() < 0.6:
            prog.append(["join", 1])
        prog.append(["ret", rng.randrange(len(VALUES))])
        main = [["spawn", prog], ["join", 0]]
    main.append(["main_stop"])
    return {"main": main}


def gen_scenario(rng, prop="C10"):
    if prop == "C11" and rng.random() < 0.3:
        return gen_family(rng)
    if prop == "C12" and rng.random() < 0.12:
        return gen_late_join(rng)
    if prop == "C10" and rng.random() < 0.25:
        return gen_cross_join(rng)
    if prop == "C12" and rng.random() < 0.2:
        return gen_timed_family(rng)
    budget = [rng.randint(1, 7)]
    main = []
    k = 0
    while budget[0] > 0 and k < 3:
        budget[0] -= 1
        main.append(["spawn", gen_program(rng, 1, budget, prop)])
        k += 1
        r = rng.random()
        if r < 0.3:
            main.append(["join", k - 1] + ([rng.choice([0, 1])] if rng.random() < 0.2 else []))
        elif r < (0.7 if prop == "C11" else 0.45):
            main.append(["stop", k - 1] + ([rng.randint(0, 3)] if prop == "C11" and rng.random() < 0.6 else []))
        elif r < 0.55:
            main.append(["release", k - 1])
    if rng.random() < 0.3:
        # join_all_threads(children), sometimes with a time limit (a signal that has / has not fired)
        main.append(["join_all"] + ([rng.choice([0, 1])] if rng.random() < 0.4 else []))
    if rng.random() < 0.3:
        main.insert(rng.randint(1, len(main)), ["join_node", rng.randint(2, 6)])
    main.append(["main_stop"])
    return {"main": main}


def shape(sc):
    def f(p):
        s = ""
        for a in p:
            if a[0] == "spawn":
                s += "(" + f(a[1]) + ")"
            elif a[0] == "spawn_orphan":
                s += "{" + f(a[1]) + "}"
            else:
                s += {"join": "j", "release": "r", "stop": "s", "wait_stop": "w", "raise": "!", "ret": ".", "join_all": "J", "main_stop": "M",
                      "join_node": "n", "timed": "t", "sleep": "z"}[a[0]]
        return s
    return f(sc["main"])


class TargetFailure(Exception):
    pass


def vidx(r):
    """index of a returned value in VALUES (0/False and 1/True are different values)"""
    for i, v in enumerate(VALUES):
        if type(v) is type(r) and v == r:
            return i
    return 99


def _node_of(obj):
    """node id of a thread object: MainThread -> 0, Thread named n<k> -> k, anything else -> None"""
    n = getattr(getattr(obj, "threading_thread", None), "name", None)
    if n is None:
        return None
    if n in ("Main Thread", "MainThread"):
        return 0
    if n.startswith("n") and n[1:].isdigit():
        return int(n[1:])
    return None


def _me_node():
    vt = ds.CUR.me() if ds.CUR is not None else None
    if vt is None:
        return None
    if vt.name == "main":
        return 0
    if vt.name.startswith("n") and vt.name[1:].isdigit():
        return int(vt.name[1:])
    return None


class ChildrenSlot(object):
    """descriptor for BaseThread.children: logs snapshots / registrations / removals with their call site"""

    def __init__(self, desc):
        self.desc = desc

    @staticmethod
    def _unlocked(obj, s):
        """an access to `children` by a thread that does not hold the thread's child_locker is a pre-emption point of its own
        (in the code as it stands there is none once the thread runs: every access is made under the lock)"""
        lk = getattr(obj, "child_locker", None)
        mutex = lk if hasattr(lk, "owner") else getattr(lk, "lock", None)
        if mutex is not None and getattr(mutex, "owner", None) is not s.me() and not s.abort and getattr(obj, "threading_thread", None) is not None:
            s.yield_point(("children", id(obj)))

    def __get__(self, obj, typ=None):
        if obj is None:
            return self
        s = ds.CUR
        if s is not None and s.me() is not None:
            self._unlocked(obj, s)
        v = self.desc.__get__(obj, typ)
        if s is None or s.me() is None:
            return v
        p = _node_of(obj)
        me = _me_node()
        if p is None or me is None:
            return v
        f = sys._getframe(1)
        fn = f.f_code.co_name
        cur = [x for x in (_node_of(c) for c in v) if x is not None]
        if fn == "add_child":
            c = _node_of(f.f_locals.get("child"))
            if c is not None:
                s.emit("m5", "reg", c, p)
        elif fn == "remove_child":
            c = _node_of(f.f_locals.get("child"))
            if c is not None:
                s.emit("m5", "unreg", c, p, c in cur)
        elif fn in ("stop", "join"):
            s.emit("m5", "snap", p, cur)
        elif fn == "_run":
            if f.f_locals.get("self") is obj:
                s.emit("m5", "snap", p, cur)
            else:
                s.emit("m5", "peek", p)
        return v

    def __set__(self, obj, value):
        s = ds.CUR
        if s is not None and s.me() is not None:
            self._unlocked(obj, s)
        self.desc.__set__(obj, value)
        if s is None or s.me() is None:
            return
        p = _node_of(obj) if hasattr(obj, "threading_thread") else None
        if p is not None and sys._getframe(1).f_code.co_name == "_run":
            s.emit("m5", "clear", p)


class TracedAll(dict):
    def __setitem__(self, k, v):
        dict.__setitem__(self, k, v)
        s = ds.CUR
        n = _node_of(v)
        if s is not None and s.me() is not None and n is not None:
            s.emit("m5", "all+", n)

    def __delitem__(self, k):
        v = dict.get(self, k)
        dict.__delitem__(self, k)
        s = ds.CUR
        n = _node_of(v) if v is not None else None
        if s is not None and s.me() is not None and n is not None and n != 0:
            s.emit("m5", "all-", n)     # (the main thread's own removal is one step with the snapshot below)

    def values(self):
        vs = list(dict.values(self))
        s = ds.CUR
        f = sys._getframe(1)
        if s is not None and s.me() is not None and f.f_code.co_name == "stop" and f.f_code.co_filename.endswith("threads.py"):
            s.emit("m5", "snapall", [x for x in (_node_of(v) for v in vs) if x is not None and x != 0])
        return vs


def _has_sleep(prog):
    return any(a[0] == "sleep" or (a[0] in ("spawn", "spawn_orphan") and _has_sleep(a[1])) for a in prog)


def _sleep_span(prog):
    """an upper bound of the virtual time the sleeps of a program (and of the programs it starts) can take"""
    own = sum(a[1] for a in prog if a[0] == "sleep")
    kids = [_sleep_span(a[1]) for a in prog if a[0] in ("spawn", "spawn_orphan")]
    return own + (max(kids) if kids else 0.0)


def gen_slow_child(rng):
    """C10: a child that takes more than ten minutes to end (and does not look at please_stop): its parent's target returns at once,
    `stopped` of the parent has to wait all that time"""
    secs = rng.choice([620.0, 650.0, 1300.0])
    child = [["sleep", secs], ["ret", rng.randrange(len(VALUES))]]
    prog = [["spawn", child], ["ret", rng.randrange(len(VALUES))] if rng.random() < 0.7 else ["raise"]]
    return {"main": [["spawn", prog], ["join", 0], ["main_stop"]]}


def run_scenario(sc, chooser=None, seed=0, max_steps=30000):
    ds.install()
    ds.reset_globals()
    from mo_threads import threads, till, signals
    long_run = _has_sleep(sc["main"])
    span = _sleep_span(sc["main"])
    sched = ds.Sched(chooser=chooser, seed=seed, max_steps=(int(120000 + 400 * span) if long_run else max_steps),
                     horizon=(max(140.0, span + 80.0) if long_run else 3.0))
    st = {"viol": [], "nodes": {}, "next": 1, "kids": {}, "outcome": {}, "join_results": [], "order": [], "targets_done": 0,
          "tills": 0, "seen": 0}
    RealSignal = signals.Signal

    class NodeSignal(RealSignal):
        """signals created by threads.py: tagged from their name; `if not self.stopped` inside join() is logged"""
        __slots__ = ["_vkind", "_vnode"]

        def __init__(self, name=None):
            RealSignal.__init__(self, name)
            self._vkind = None
            self._vnode = None
            if isinstance(name, str):
                for pre, kind in (("please_stop for n", "pstop"), ("joining with n", "joiner"), ("stopped signal for n", "stopped")):
                    if name.startswith(pre) and name[len(pre):].isdigit():
                        self._vkind, self._vnode = kind, int(name[len(pre):])
                        sched.trace(self, "%s%d" % (kind, self._vnode))

        def __bool__(self):
            v = ds.raw(self, "_go")
            if self._vkind == "stopped" and sys._getframe(1).f_code.co_name == "join":
                s = ds.CUR
                if s is not None and s.me() is not None:
                    s.yield_point(("Rstopped", self))
                    v = ds.raw(self, "_go")
                    s.emit("m5", "waited", self._vnode, bool(v))
            return v

    old_signal = threads.Signal
    threads.Signal = NodeSignal
    old_children = threads.BaseThread.__dict__["children"]
    threads.BaseThread.children = ChildrenSlot(old_children.desc if isinstance(old_children, ChildrenSlot) else old_children)
    threads.ALL = TracedAll()
    try:
        from mo_threads import processes
        processes.ALL = threads.ALL
    except Exception:
        pass

    orig_shim_start = ds.ShimThread.start

    def shim_start(self):
        if self.name == TIMERS:
            self._verif_background = True
            self._verif_timekeeper = True
        return orig_shim_start(self)
    ds.ShimThread.start = shim_start

    def make_target(nid, prog):
        def target(please_stop):
            kids = []
            for a in prog:
                run_action(nid, a, kids, please_stop)
                if a[0] == "ret":
                    return VALUES[a[1]]
        target.__name__ = "target%d" % nid
        return target

    def spawn(prog, parent_nid):
        nid = st["next"]
        st["next"] += 1
        sched.note("call", parent_nid, "spawn")
        st["kids"].setdefault(parent_nid, []).append(nid)
        th = threads.Thread.run("n%d" % nid, make_target(nid, prog))
        st["nodes"][nid] = th
        sched.note("ret", parent_nid, "spawn", "done")
        return (nid, th)

    def spawn_orphan(prog, creator_nid):
        from mo_dots import Null
        nid = st["next"]
        st["next"] += 1
        sched.note("call", creator_nid, "spawn_orphan")
        st.setdefault("orphans", []).append(nid)
        th = threads.Thread.run("n%d" % nid, make_target(nid, prog), parent_thread=Null)
        st["nodes"][nid] = th
        sched.note("ret", creator_nid, "spawn", "done")
        return (nid, th)

    def do_join(caller, kid, a):
        nid, th = kid
        till_sig = None
        timed = len(a) > 2
        tl = "-"
        if timed:
            x = st["tills"]
            st["tills"] += 1
            tl = str(x)
            till_sig = RealSignal("jt%d" % x)
            if a[2] == 1:
                sched.note("env", "fire", x)
                till_sig.go()
        sched.note("call", caller, "join", nid, tl)
        t_call = sched.clock
        stopped_before = bool(ds.raw(th.stopped, "_go"))
        try:
            r = th.join(till=till_sig) if timed else th.join()
            stopped = bool(ds.raw(th.stopped, "_go"))
            st["join_results"].append((caller, nid, "ret", r, stopped, timed))
            sched.note("ret", caller, "join", "value", vidx(r))
        except ds.SchedAbort:
            raise
        except BaseException as e:   # noqa
            stopped = bool(ds.raw(th.stopped, "_go"))
            # (for the monitors) the time limit had run out before the call and the thread had not stopped then: what is raised
            # may be the timeout, of the thread or of one of its children, even if the thread has stopped by the time anybody
            # looks again
            judged_stopped = stopped and not (timed and a[2] == 1 and not stopped_before)
            st["join_results"].append((caller, nid, "raise", e, judged_stopped, timed))
            sched.note("ret", caller, "join", "raised" if stopped else "timeout")
        if timed and a[2] == 1 and sched.clock > t_call:
            st["viol"].append("C12: join(n%d, till) was called with a till that had already fired and took %.2f s of virtual time: it "
                              "waited for something without its time limit" % (nid, sched.clock - t_call))

    def subtree(nid):
        ids = [nid]
        todo = list(st["kids"].get(nid, []))
        while todo:
            c = todo.pop()
            ids.append(c)
            todo.extend(st["kids"].get(c, []))
        return ids

    def do_stop(caller, kid, a):
        nid, th = kid
        if len(a) > 2:
            need = a[2]
            t0 = sched.clock
            sched.wait_cond(lambda: st["targets_done"] >= need or sched.clock >= t0 + 0.2)
        before = [st["nodes"][i] for i in subtree(nid) if i in st["nodes"] and not ds.raw(st["nodes"][i].stopped, "_go")]
        sched.note("call", caller, "stop", nid)
        th.stop()
        sched.note("ret", caller, "stop", "done")
        missing = [x.name for x in before if not ds.raw(x.please_stop, "_go") and not ds.raw(x.stopped, "_go")]
        if missing:
            st["viol"].append("C11: stop() of n%d returned but please_stop is still false for %s (registered under it when stop() was called)" % (nid, missing))

    def run_action(nid, a, kids, please_stop):
        if a[0] == "spawn":
            if len(a) > 2:
                # gated: not before thread a[2] has triggered `stopped` (or 0.2 s have passed)
                k, t0 = a[2], sched.clock
                sched.wait_cond(lambda: (k in st["nodes"] and bool(ds.raw(st["nodes"][k].stopped, "_go"))) or sched.clock >= t0 + 0.2)
            kids.append(spawn(a[1], nid))
        elif a[0] == "spawn_orphan":
            spawn_orphan(a[1], nid)
        elif a[0] == "join":
            do_join(nid, kids[a[1]], a)
        elif a[0] == "join_node":
            k = a[1]
            t0 = sched.clock
            sched.wait_cond(lambda: k in st["nodes"] or sched.clock >= t0 + 0.2)     # give the thread time to be created
            anc = set()
            x = nid
            while x:
                anc.add(x)
                x = next((p for p, cs in st["kids"].items() if x in cs), 0)
            # only younger threads (k > own number): every wait then goes from a smaller to a larger number (a parent waits
            # for its children, which are younger), so no cycle of joins can be built
            if k in st["nodes"] and k > nid and k not in anc and k not in st.get("orphans", []):
                do_join(nid, (k, st["nodes"][k]), a[:2])
        elif a[0] == "release":
            sched.note("call", nid, "release", kids[a[1]][0])
            kids[a[1]][1].release()
            sched.note("ret", nid, "release", "done")
        elif a[0] == "stop":
            do_stop(nid, kids[a[1]], a)
        elif a[0] == "wait_stop":
            (please_stop | till.Till(seconds=0.3)).wait()
        elif a[0] == "sleep":
            sched.vsleep(a[1])
        elif a[0] == "timed":
            # something that needs the timers after the thread was asked to stop (flushing with a deadline, a retry pause)
            t0 = sched.clock
            till.Till(seconds=a[1]).wait()
            if sched.clock - t0 < a[1] - 1e-9:
                st["viol"].append("C11: thread n%d was registered under the main thread before MainThread.stop() took its children, "
                                  "but the timers were shut down while it was still running (a Till of %.2f s came true after %.2f s)"
                                  % (nid, a[1], sched.clock - t0))
        elif a[0] == "raise":
            st["outcome"][nid] = ("fail", None)
            st["targets_done"] += 1
            sched.note("call", nid, "finish", "fail")
            raise TargetFailure("node %d fails" % nid)
        elif a[0] == "ret":
            st["outcome"][nid] = ("ok", VALUES[a[1]])
            st["targets_done"] += 1
            sched.note("call", nid, "finish", "ok", a[1])
        elif a[0] == "join_all":
            ids = [k[0] for k in kids]
            till_sig = None
            tl = "-"
            if len(a) > 1:
                x = st["tills"]
                st["tills"] += 1
                tl = str(x)
                till_sig = RealSignal("jt%d" % x)
                if a[1] == 1:
                    sched.note("env", "fire", x)
                    till_sig.go()
            sched.note("call", nid, "join_all", ",".join(str(i) for i in ids) or "-", tl)
            try:
                res = threads.join_all_threads([k[1] for k in kids], till=till_sig) if till_sig is not None else threads.join_all_threads([k[1] for k in kids])
                st["join_results"].append((nid, ids, "all_ret", res, True, till_sig is not None))
                sched.note("ret", nid, "join_all", "values", "[" + ",".join(
                    str(vidx(r)) if st["outcome"].get(i, ("", 0))[0] == "ok" else "-" for i, r in zip(ids, res)) + "]")
            except ds.SchedAbort:
                raise
            except BaseException as e:   # noqa
                st["join_results"].append((nid, ids, "all_raise", e, True, till_sig is not None))
                sched.note("ret", nid, "join_all", "allraised")
        elif a[0] == "main_stop":
            main = threads.MAIN_THREAD
            sched.note("call", 0, "main_stop")
            if sc.get("hook"):
                main.please_stop.then(lambda: spawn(sc["hook"], 0))
            try:
                main.stop()
                st["main_stop"] = "ok"
                sched.note("ret", 0, "main_stop", "done")
            except ds.SchedAbort:
                raise
            except BaseException as e:   # noqa
                st["main_stop"] = e
                sched.note("ret", 0, "main_stop", "allraised")
            # what MainThread.stop() answers for: the threads that descend from the main thread, and whatever was in the
            # registry when the sweep took its snapshot (an orphan that had been created but was not running yet is in neither)
            swept = set()
            for ev in sched.events:
                if len(ev) > 3 and ev[1] == "m5" and ev[2] == "snapall":
                    swept = set(ev[3])
            covered = set(subtree(0)) | swept
            residue = [t.name for t in threads.ALL.values() if _node_of(t) in covered or _node_of(t) is None]
            if residue:
                st["viol"].append("C11: threads %s are still registered after MainThread.stop()" % residue)
            for nid2, th in st["nodes"].items():
                if nid2 in covered and not ds.raw(th.stopped, "_go"):
                    st["viol"].append("C11: thread n%d has not stopped after MainThread.stop() returned" % nid2)
            failed = [i for i, oc in st["outcome"].items() if oc[0] == "fail"]
            if failed and st["main_stop"] == "ok" and any(i in st["kids"].get(0, []) and not _was_joined(st, i) for i in failed):
                st["viol"].append("C11: MainThread.stop() swallowed the failure of %s" % failed)

    def main_body():
        threads.start_main_thread()
        sched.trace(threads.MAIN_THREAD.please_stop, "pstop0")
        kids = []
        for a in sc["main"]:
            run_action(0, a, kids, threads.MAIN_THREAD.please_stop)

    def on_step(s, vt):
        evs = s.events
        i = st["seen"]
        while i < len(evs):
            ev = evs[i]
            i += 1
            if len(ev) >= 4 and ev[1] == "W" and ev[3] == "_go" and isinstance(ev[2], str) and ev[2].startswith("stopped"):
                p = int(ev[2][7:])
                for c in subtree(p)[1:]:
                    th = st["nodes"].get(c)
                    if th is not None and not ds.raw(th.stopped, "_go"):
                        st["viol"].append("C10: `stopped` of n%d became true while its descendant n%d is still running" % (p, c))
        st["seen"] = i

    sched.on_step = on_step
    mvt = sched.spawn("main", main_body)
    mvt.shim = ds._shim_main
    ds._shim_main.vt = mvt
    ds._shim_main._started = True
    ds._shim_main.name = "MainThread"
    # the sixty seconds a finished thread waits for a joiner: when that Till fires, the trace says so
    orig_till_cls = threads.Till

    def linger_till(*a, **k):
        t = orig_till_cls(*a, **k)
        if k.get("seconds") == 60 and sys._getframe(1).f_code.co_name == "_run":
            nid = _me_node()
            if nid is not None:
                t.then(lambda: sched.note("env", "expire", nid))
        return t
    threads.Till = linger_till
    try:
        outcome = sched.run()
    finally:
        threads.Till = orig_till_cls
        ds.ShimThread.start = orig_shim_start
        threads.Signal = old_signal
        threads.BaseThread.children = old_children
    stuck = sorted(x for x in ((0 if vt.name == "main" else (int(vt.name[1:]) if vt.name[1:].isdigit() else None)) for vt in sched.stuck) if x is not None)
    lines = to_lines(sched.events)
    lines.append(" ".join(["end", outcome] + [str(t) for t in stuck]))
    viol = st["viol"]
    for (caller, nid, kind, val, stopped, timed) in st["join_results"]:
        if kind in ("ret", "raise"):
            oc = st["outcome"].get(nid)
            if kind == "ret":
                if not stopped:
                    viol.append("C12: join() of n%d returned although the thread has not stopped" % nid)
                if oc is not None and oc[0] == "ok" and val != oc[1]:
                    viol.append("C12: join() of n%d returned %r but the target returned %r" % (nid, val, oc[1]))
                if oc is not None and oc[0] == "fail":
                    viol.append("C12: join() of n%d returned normally although the target raised" % nid)
            else:
                if not timed and not stopped:
                    viol.append("C12: join() of n%d raised before the thread stopped" % nid)
                if not timed and oc is not None and oc[0] == "ok" and not _descendant_failed(st, nid):
                    viol.append("C12: join() of n%d raised (%s) although the target returned %r and no joined child failed" % (nid, str(val)[:80], oc[1]))
                if oc is not None and oc[0] == "fail" and stopped and ("node %d fails" % nid) not in _chain(val) and not _descendant_failed(st, nid):
                    viol.append("C12: join() of n%d raised without the target's exception in its cause chain: %s" % (nid, _chain(val)[:120]))
        elif kind == "all_ret":
            for i, r in zip(nid, val):
                oc = st["outcome"].get(i)
                if oc is not None and oc[0] == "ok" and r != oc[1]:
                    viol.append("C12: join_all_threads returned %r for n%d whose target returned %r" % (r, i, oc[1]))
                if oc is not None and oc[0] == "fail":
                    viol.append("C12: join_all_threads did not report the failure of n%d" % i)
    if outcome == "stuck":
        viol.append("C10: threads %s never finished (stuck)" % stuck)
    for vt in sched.vts:
        if vt.exc is not None and not isinstance(vt.exc, TargetFailure):
            viol.append("unexpected exception in %s: %r" % (vt.name, vt.exc))
    return {"lines": lines, "outcome": outcome, "monitor": sorted(set(viol)), "choices": list(sched.choices), "cand_counts": list(sched.cand_counts), "steps": sched.steps,
            "switches": sched.context_switches, "stuck": stuck}


def _was_joined(st, nid):
    for (_, n, k, _, _, _) in st["join_results"]:
        if isinstance(n, list):
            if nid in n:
                return True
        elif n == nid:
            return True
    return False


def to_lines(events):
    lines = []

    def who(name):
        if name == "main":
            return "0"
        if name.startswith("n") and name[1:].isdigit():
            return name[1:]
        return None

    def lst(v):
        return "[" + ",".join(str(x) for x in v) + "]"
    for ev in events:
        if ev[0] == "-":
            if ev[1] == "note":
                lines.append(" ".join(str(w) for w in ev[2:]))
            continue
        t = who(ev[0])
        if t is None:
            continue
        kind = ev[1]
        if kind == "m5":
            k = ev[2]
            if k == "snap":
                lines.append("step %s snap %d %s" % (t, ev[3], lst(ev[4])))
            elif k == "reg":
                lines.append("step %s reg %d %d" % (t, ev[3], ev[4]))
            elif k == "unreg":
                lines.append("step %s unreg %d %d %s" % (t, ev[3], ev[4], "True" if ev[5] else "False"))
            elif k in ("clear", "peek", "all+", "all-"):
                if k == "all+" and ev[3] == 0:
                    continue       # start_main_thread registers the main thread: the model starts from there
                lines.append("step %s %s %d" % (t, k, ev[3]))
            elif k == "snapall":
                lines.append("step %s snapall %s" % (t, lst(ev[3])))
            elif k == "waited":
                lines.append("step %s waited %d %s" % (t, ev[3], "True" if ev[4] else "False"))
        elif kind == "W" and ev[3] == "_go":
            tag = ev[2]
            for pre in ("pstop", "stopped", "joiner"):
                if isinstance(tag, str) and tag.startswith(pre) and tag[len(pre):].isdigit():
                    lines.append("step %s %s %s" % (t, pre, tag[len(pre):]))
        elif kind == "spawn":
            nm = ev[2]
            if nm.startswith("n") and nm[1:].isdigit():
                lines.append("step %s start %s" % (t, nm[1:]))
    return lines


def _chain(e):
    out = []
    seen = 0
    stack = [e]
    while stack and seen < 50:
        x = stack.pop()
        seen += 1
        out.append(str(x)[:200])
        c = getattr(x, "cause", None)
        if isinstance(c, (list, tuple)):
            stack.extend(c)
        elif c is not None:
            stack.append(c)
        c2 = getattr(x, "__cause__", None)
        if c2 is not None:
            stack.append(c2)
    return " | ".join(out)


def _descendant_failed(st, nid):
    todo = list(st["kids"].get(nid, []))
    while todo:
        c = todo.pop()
        todo.extend(st["kids"].get(c, []))
        oc = st["outcome"].get(c)
        if oc is not None and oc[0] == "fail":
            return True
    return False


# ---------------------------------------------------------------------------------------------------------------------
# join_all_threads on a batch with a real Till as time limit (monitor only; the trace-accepted scenarios cover join_all with an
# environment-fired limit)
# ---------------------------------------------------------------------------------------------------------------------
def gen_batch(rng):
    n = rng.randint(2, 5)
    kinds = [rng.choice(["ok", "ok", "fail", "slow", "late"]) for _ in range(n)]
    return {"batch": kinds, "till": rng.choice([None, 0.2, 0.2, 0.5]), "values": [rng.randrange(len(VALUES)) for _ in range(n)]}


def batch_shape(sc):
    return "batch:" + "".join(k[0] for k in sc["batch"]) + ":t%s" % sc["till"]


def run_batch_scenario(sc, chooser=None, seed=0, max_steps=40000):
    """main starts the batch, joins it with join_all_threads(batch, till); `slow` threads outlive the limit"""
    ds.install()
    ds.reset_globals()
    from mo_threads import threads, till as tillmod
    sched = ds.Sched(chooser=chooser, seed=seed, max_steps=max_steps, horizon=6.0)
    viol = []
    st = {}
    orig_shim_start = ds.ShimThread.start

    def shim_start(self):
        if self.name == TIMERS:
            self._verif_background = True
            self._verif_timekeeper = True
        return orig_shim_start(self)
    ds.ShimThread.start = shim_start

    def target(i, kind):
        def run(please_stop):
            if kind == "ok":
                return VALUES[sc["values"][i]]
            if kind == "fail":
                raise TargetFailure("node %d fails" % i)
            if kind == "late":
                tillmod.Till(seconds=0.1).wait()
                return VALUES[sc["values"][i]]
            (please_stop | tillmod.Till(seconds=3.0)).wait()      # slow: outlives the limit unless told to stop
            return VALUES[sc["values"][i]]
        return run

    def main_body():
        threads.start_main_thread()
        kids = [threads.Thread.run("b%d" % i, target(i, k)) for i, k in enumerate(sc["batch"])]
        lim = tillmod.Till(seconds=sc["till"]) if sc["till"] is not None else None
        if sc["till"] is None:
            for i, k in enumerate(sc["batch"]):
                if k == "slow":
                    kids[i].stop()
        try:
            res = threads.join_all_threads(kids, till=lim)
            st["res"] = ("ret", res)
        except ds.SchedAbort:
            raise
        except BaseException as e:   # noqa
            st["res"] = ("raise", e)
        st["stopped_after"] = [bool(k.stopped) for k in kids]
        st["registered_after"] = [k in threads.MAIN_THREAD.children for k in kids]
        for k in kids:
            k.stop()
        try:
            threads.MAIN_THREAD.stop()
        except ds.SchedAbort:
            raise
        except BaseException:   # noqa
            pass

    sched.spawn("main", main_body)
    ds._shim_main.name = "MainThread"
    try:
        outcome = sched.run()
    finally:
        ds.ShimThread.start = orig_shim_start
    if "res" not in st:
        if outcome != "bound":       # a run cut at the step bound is an unfair schedule, not a hang
            viol.append("C12: join_all_threads did not come back (%s)" % outcome)
    if "res" in st:
        kind, val = st["res"]
        failed = [i for i, k in enumerate(sc["batch"]) if k == "fail"]
        for i, k in enumerate(sc["batch"]):
            # a thread that has stopped by the end of the call must have been joined (a joined thread leaves its parent)
            if st["stopped_after"][i] and k in ("ok", "fail") and st["registered_after"][i]:
                viol.append("C12: join_all_threads came back but never joined b%d (%s), which had finished long before" % (i, k))
        if kind == "ret":
            if failed:
                viol.append("C12: join_all_threads returned normally although b%s failed" % failed)
            for i, k in enumerate(sc["batch"]):
                if k in ("ok", "late", "slow") and st["stopped_after"][i]:
                    r = val[i]
                    want = VALUES[sc["values"][i]]
                    if not (type(r) is type(want) and r == want):
                        viol.append("C12: join_all_threads returned %r at position %d, b%d returned %r" % (r, i, i, want))
        else:
            ch = _chain(val)
            for i in failed:
                if ("node %d fails" % i) not in ch:
                    viol.append("C12: join_all_threads raised but does not report the failure of b%d: %s" % (i, ch[:160]))
            if not failed and sc["till"] is None:
                viol.append("C12: join_all_threads raised although no thread failed and there was no time limit: %s" % ch[:160])
    for vt in sched.vts:
        if vt.exc is not None and not isinstance(vt.exc, TargetFailure):
            viol.append("unexpected exception in %s: %r" % (vt.name, vt.exc))
    return {"lines": [], "outcome": outcome, "monitor": sorted(set(viol)), "choices": list(sched.choices), "cand_counts": list(sched.cand_counts), "steps": sched.steps,
            "switches": sched.context_switches, "stuck": [vt.name for vt in sched.stuck]}
