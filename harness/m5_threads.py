"""
M5 correspondence + monitors for C10/C11/C12: the REAL mo_threads.threads (Thread, MainThread, join_all_threads,
start_main_thread, the real timer daemon) under the deterministic scheduler.
A scenario is a tree of thread programs; the main virtual thread plays the process' main thread.
"""
import sys

from . import detsched as ds

TIMERS = "timers daemon"


def gen_program(rng, depth, budget, prop):
    """a thread program: list of actions executed by the thread's target"""
    acts = []
    nkids = 0
    n = rng.randint(0, 3 if depth < 2 else (1 if depth < 3 else 0))
    for _ in range(n):
        if budget[0] <= 0:
            break
        budget[0] -= 1
        acts.append(["spawn", gen_program(rng, depth + 1, budget, prop)])
        nkids += 1
        r = rng.random()
        if r < 0.25:
            acts.append(["join", nkids - 1] + ([rng.choice([0, 1])] if rng.random() < 0.2 else []))
        elif r < 0.35:
            acts.append(["release", nkids - 1])
        elif r < (0.6 if prop == "C11" else 0.45):
            acts.append(["stop", nkids - 1] + ([rng.randint(0, 2)] if prop == "C11" and rng.random() < 0.5 else []))
    if rng.random() < 0.4:
        acts.insert(rng.randint(0, len(acts)), ["wait_stop"])
    if rng.random() < 0.3:
        acts.append(["raise"])
    else:
        acts.append(["ret", rng.choice([None, 0, 1, 7, "x", [1, 2], {"a": 1}, False, ""])])
    return acts


def gen_scenario(rng, prop="C10"):
    budget = [rng.randint(1, 7)]
    main = []
    k = 0
    while budget[0] > 0 and k < 3:
        budget[0] -= 1
        main.append(["spawn", gen_program(rng, 1, budget, prop)])
        k += 1
        r = rng.random()
        if r < 0.3:
            main.append(["join", k - 1] + ([rng.choice([0, 1])] if rng.random() < 0.2 else []))
        elif r < (0.7 if prop == "C11" else 0.45):
            main.append(["stop", k - 1] + ([rng.randint(0, 3)] if prop == "C11" and rng.random() < 0.6 else []))
        elif r < 0.55:
            main.append(["release", k - 1])
    if rng.random() < 0.3:
        main.append(["join_all"])
    main.append(["main_stop"])
    return {"main": main}


def shape(sc):
    def f(p):
        s = ""
        for a in p:
            if a[0] == "spawn":
                s += "(" + f(a[1]) + ")"
            else:
                s += {"join": "j", "release": "r", "stop": "s", "wait_stop": "w", "raise": "!", "ret": ".", "join_all": "J", "main_stop": "M"}[a[0]]
        return s
    return f(sc["main"])


class TargetFailure(Exception):
    pass


def run_scenario(sc, chooser=None, seed=0, max_steps=30000):
    ds.install()
    ds.reset_globals()
    from mo_threads import threads, till, signals
    from mo_logs import logger
    sched = ds.Sched(chooser=chooser, seed=seed, max_steps=max_steps, horizon=3.0)
    st = {"viol": [], "nodes": {}, "next": 0, "kids": {}, "registered_under": {}, "outcome": {}, "join_results": [],
          "stop_checks": [], "order": [], "targets_done": 0}

    orig_shim_start = ds.ShimThread.start

    def shim_start(self):
        if self.name == TIMERS:
            self._verif_background = True
            self._verif_timekeeper = True
        return orig_shim_start(self)
    ds.ShimThread.start = shim_start

    def tag_thread(th, nid):
        st["nodes"][nid] = th
        th._verif_id = nid if False else None   # Thread has __slots__? BaseThread only; Thread is a normal class

    def descendants(th):
        out = []
        for c in list(ds.raw(th, "children")):
            out.append(c)
            if isinstance(c, threads.Thread):
                out.extend(descendants(c))
        return out

    def make_target(nid, prog):
        def target(please_stop):
            kids = []
            for a in prog:
                if a[0] == "spawn":
                    kids.append(spawn(a[1], nid))
                elif a[0] == "join":
                    do_join(nid, kids[a[1]], a)
                elif a[0] == "release":
                    kids[a[1]][1].release()
                elif a[0] == "stop":
                    if len(a) > 2:
                        need = a[2]
                        t0 = sched.clock
                        sched.wait_cond(lambda: st["targets_done"] >= need or sched.clock >= t0 + 0.2)
                    do_stop(nid, kids[a[1]])
                elif a[0] == "wait_stop":
                    (please_stop | till.Till(seconds=0.3)).wait()
                elif a[0] == "raise":
                    st["outcome"][nid] = ("fail", None)
                    st["targets_done"] += 1
                    raise TargetFailure("node %d fails" % nid)
                elif a[0] == "ret":
                    st["outcome"][nid] = ("ok", a[1])
                    st["targets_done"] += 1
                    return a[1]
        target.__name__ = "target%d" % nid
        return target

    def spawn(prog, parent_nid):
        nid = st["next"]
        st["next"] += 1
        th = threads.Thread.run("n%d" % nid, make_target(nid, prog))
        st["nodes"][nid] = th
        st["kids"].setdefault(parent_nid, []).append(nid)
        st["parent"] = st.get("parent", {})
        st["parent"][nid] = parent_nid
        sched.trace(th.stopped, "stopped%d" % nid)
        sched.trace(th.please_stop, "pstop%d" % nid)
        return (nid, th)

    def do_join(caller, kid, a):
        nid, th = kid
        till_sig = None
        timed = len(a) > 2
        if timed:
            till_sig = signals.Signal("jt")
            if a[2] == 1:
                till_sig.go()
        try:
            r = th.join(till=till_sig) if timed else th.join()
            stopped = bool(ds.raw(th.stopped, "_go"))
            st["join_results"].append((caller, nid, "ret", r, stopped, timed))
        except ds.SchedAbort:
            raise
        except BaseException as e:   # noqa
            stopped = bool(ds.raw(th.stopped, "_go"))
            st["join_results"].append((caller, nid, "raise", e, stopped, timed))

    def do_stop(caller, kid):
        nid, th = kid
        ids = [nid]
        todo = list(st["kids"].get(nid, []))
        while todo:
            c = todo.pop()
            ids.append(c)
            todo.extend(st["kids"].get(c, []))
        before = [st["nodes"][i] for i in ids if i in st["nodes"] and not ds.raw(st["nodes"][i].stopped, "_go")]
        th.stop()
        missing = [getattr(x, "name", "?") for x in before if not ds.raw(x.please_stop, "_go") and not ds.raw(x.stopped, "_go")]
        if missing:
            st["viol"].append("C11: stop() of n%d returned but please_stop is still false for %s (registered under it when stop() was called)" % (nid, missing))

    def main_body():
        threads.start_main_thread()
        main = threads.MAIN_THREAD
        kids = []
        for a in sc["main"]:
            if a[0] == "spawn":
                kids.append(spawn(a[1], -1))
            elif a[0] == "join":
                do_join(-1, kids[a[1]], a)
            elif a[0] == "release":
                kids[a[1]][1].release()
            elif a[0] == "stop":
                if len(a) > 2:
                    need = a[2]
                    t0 = sched.clock
                    sched.wait_cond(lambda: st["targets_done"] >= need or sched.clock >= t0 + 0.2)
                do_stop(-1, kids[a[1]])
            elif a[0] == "join_all":
                try:
                    res = threads.join_all_threads([k[1] for k in kids])
                    st["join_results"].append((-1, [k[0] for k in kids], "all_ret", res, True, False))
                except ds.SchedAbort:
                    raise
                except BaseException as e:   # noqa
                    st["join_results"].append((-1, [k[0] for k in kids], "all_raise", e, True, False))
            elif a[0] == "main_stop":
                try:
                    main.stop()
                    st["main_stop"] = "ok"
                except ds.SchedAbort:
                    raise
                except BaseException as e:   # noqa
                    st["main_stop"] = e
                residue = [t.name for t in threads.ALL.values()]
                if residue:
                    st["viol"].append("C11: threads %s are still registered after MainThread.stop()" % residue)
                for nid, th in st["nodes"].items():
                    if not ds.raw(th.stopped, "_go"):
                        st["viol"].append("C11: thread n%d has not stopped after MainThread.stop() returned" % nid)

    # C10 monitor: at the moment `stopped` of p becomes true, every thread registered under p (transitively) must have stopped
    def on_step(s, vt):
        evs = s.events
        i = st.get("seen", 0)
        while i < len(evs):
            ev = evs[i]
            i += 1
            if len(ev) >= 4 and ev[1] == "W" and ev[3] == "_go" and isinstance(ev[2], str) and ev[2].startswith("stopped"):
                p = int(ev[2][7:])
                st["order"].append(p)
                todo = list(st["kids"].get(p, []))
                while todo:
                    c = todo.pop()
                    todo.extend(st["kids"].get(c, []))
                    th = st["nodes"].get(c)
                    if th is not None and not ds.raw(th.stopped, "_go"):
                        st["viol"].append("C10: `stopped` of n%d became true while its descendant n%d is still running" % (p, c))
        st["seen"] = i

    sched.on_step = on_step
    logger_error = None
    mvt = sched.spawn("main", main_body)
    mvt.shim = ds._shim_main
    ds._shim_main.vt = mvt
    ds._shim_main._started = True
    try:
        outcome = sched.run()
    finally:
        ds.ShimThread.start = orig_shim_start
    stuck = [vt.name for vt in sched.stuck]
    viol = st["viol"]
    # C12: join results vs outcomes
    for (caller, nid, kind, val, stopped, timed) in st["join_results"]:
        if kind in ("ret", "raise"):
            oc = st["outcome"].get(nid)
            if kind == "ret":
                if not stopped:
                    viol.append("C12: join() of n%d returned although the thread has not stopped" % nid)
                if oc is not None and oc[0] == "ok" and val != oc[1]:
                    viol.append("C12: join() of n%d returned %r but the target returned %r" % (nid, val, oc[1]))
                if oc is not None and oc[0] == "fail":
                    viol.append("C12: join() of n%d returned normally although the target raised" % nid)
            else:
                if not timed and not stopped:
                    viol.append("C12: join() of n%d raised before the thread stopped" % nid)
                if not timed and oc is not None and oc[0] == "ok" and not _descendant_failed(st, nid):
                    viol.append("C12: join() of n%d raised (%r) although the target returned %r and no joined child failed" % (nid, str(val)[:80], oc[1]))
                if oc is not None and oc[0] == "fail" and stopped and "node %d fails" % nid not in _chain(val):
                    if not _descendant_failed(st, nid):
                        viol.append("C12: join() of n%d raised without the target's exception in its cause chain: %s" % (nid, _chain(val)[:120]))
    if outcome == "stuck":
        viol.append("C10: threads %s never finished (stuck)" % stuck)
    for vt in sched.vts:
        if vt.exc is not None and not isinstance(vt.exc, TargetFailure):
            viol.append("unexpected exception in %s: %r" % (vt.name, vt.exc))
    return {"lines": [], "outcome": outcome, "monitor": sorted(set(viol)), "choices": list(sched.choices), "steps": sched.steps,
            "switches": sched.context_switches, "stuck": stuck}


def _chain(e):
    out = []
    seen = 0
    stack = [e]
    while stack and seen < 50:
        x = stack.pop()
        seen += 1
        out.append(str(x)[:200])
        c = getattr(x, "cause", None)
        if isinstance(c, (list, tuple)):
            stack.extend(c)
        elif c is not None:
            stack.append(c)
        c2 = getattr(x, "__cause__", None)
        if c2 is not None:
            stack.append(c2)
    return " | ".join(out)


def _descendant_failed(st, nid):
    todo = list(st["kids"].get(nid, []))
    while todo:
        c = todo.pop()
        todo.extend(st["kids"].get(c, []))
        oc = st["outcome"].get(c)
        if oc is not None and oc[0] == "fail":
            return True
    return False
