"""
Deterministic scheduler around the REAL mo_threads code (DESIGN §3.2).

One OS thread per virtual thread, exactly one runs at a time.  A virtual thread stops *before* each
visible operation (lock acquire/release, traced attribute read/write, sleep, callback, ...), the
controller picks which thread performs its pending operation next.  A run is the list of controller
choices, so it replays exactly.

Nothing here changes /repo: everything is monkey-patching (install()).
"""
import sys
import os
import random
import threading as _threading
import _thread
import types

REPO = os.environ.get("MO_THREADS_REPO", "/repo")
if REPO not in sys.path[:1]:
    sys.path.insert(0, REPO)

_real_allocate_lock = _thread.allocate_lock
_get_ident = _thread.get_ident

CUR = None  # the Sched of the run in progress (one per process at a time)

# ------------------------------------------------------------------------------------------------
# line mode: every line of the library's own functions is a pre-emption point (monitor-only jobs; no new trace events)
# ------------------------------------------------------------------------------------------------
LINE_MODE = False          # set by a job; Sched.run() turns the monitoring on for its run
LINE_MODULES = ("signals", "lock", "queues", "threads", "till", "python", "commands")
_LINE_TOOL = 3
_line_codes = None


def _module_codes():
    """the code objects of every function and method defined in the library's modules (nested ones too)"""
    global _line_codes
    if _line_codes is not None:
        return _line_codes
    import types
    import importlib
    seen, out = set(), []

    def add(code):
        if id(code) in seen:
            return
        seen.add(id(code))
        out.append(code)
        for c in code.co_consts:
            if isinstance(c, types.CodeType):
                add(c)
    for name in LINE_MODULES:
        try:
            mod = importlib.import_module("mo_threads." + name)
        except Exception:   # noqa
            continue
        fn = getattr(mod, "__file__", "")
        for obj in list(vars(mod).values()):
            cands = []
            if isinstance(obj, types.FunctionType):
                cands.append(obj)
            elif isinstance(obj, type):
                for v in vars(obj).values():
                    f = getattr(v, "__func__", v)
                    if isinstance(f, types.FunctionType):
                        cands.append(f)
                    elif isinstance(v, property):
                        cands.extend(x for x in (v.fget, v.fset) if isinstance(x, types.FunctionType))
            for f in cands:
                if f.__code__.co_filename == fn:
                    add(f.__code__)
    _line_codes = out
    return out


def _on_line(code, lineno):
    s = CUR
    if s is None or s.abort:
        return
    vt = s.by_ident.get(_get_ident())
    if vt is None or vt.in_line:
        return
    vt.in_line = True
    try:
        s.yield_point(("line", lineno))
    finally:
        vt.in_line = False


def line_mode_on():
    mon = sys.monitoring
    try:
        mon.use_tool_id(_LINE_TOOL, "verif-lines")
    except ValueError:
        pass
    mon.register_callback(_LINE_TOOL, mon.events.LINE, _on_line)
    for code in _module_codes():
        mon.set_local_events(_LINE_TOOL, code, mon.events.LINE)


def line_mode_off():
    mon = sys.monitoring
    for code in _module_codes():
        try:
            mon.set_local_events(_LINE_TOOL, code, 0)
        except ValueError:
            pass
    try:
        mon.register_callback(_LINE_TOOL, mon.events.LINE, None)
        mon.free_tool_id(_LINE_TOOL)
    except ValueError:
        pass

ADVANCE = "<advance>"


class SchedAbort(BaseException):
    """raised inside virtual threads to unwind them when a run is torn down"""


class Deadline(Exception):
    pass


class VT(object):
    __slots__ = ("name", "idx", "sem", "pending", "state", "os_thread", "fn", "exc", "result",
                 "timekeeper", "background", "shim", "steps", "ident", "atomic", "timed_out", "in_line", "inject_exc")

    def __init__(self, name, idx, fn):
        self.name = name
        self.idx = idx
        self.sem = _real_allocate_lock()
        self.sem.acquire()
        self.pending = ("start",)
        self.state = "ready"
        self.fn = fn
        self.exc = None
        self.result = None
        self.timekeeper = False   # time passes only while every timekeeper sleeps
        self.background = False   # does not count for "all scenario threads done"
        self.shim = None
        self.steps = 0
        self.ident = None
        self.atomic = 0           # >0: inside a section a harness declared atomic (no pre-emption)
        self.timed_out = False    # its pending timed acquire has been given its timeout
        self.in_line = False      # inside the line-mode callback
        self.inject_exc = None    # an exception to be raised in this thread while it is blocked in its next acquire (a signal handler that raises)

    def __repr__(self):
        return "VT(%s)" % self.name


class Sched(object):
    def __init__(self, chooser=None, seed=0, max_steps=20000, horizon=0.0, trace_all=False, eager_time=True):
        self.vts = []
        self.by_ident = {}
        self.ctl = _real_allocate_lock()
        self.ctl.acquire()
        self.rng = random.Random(seed)
        self.chooser = chooser or (lambda sched, cands: sched.rng.randrange(len(cands)))
        self.choices = []          # what was chosen (index into the candidate list) — the replay
        self.cand_counts = []
        self.events = []           # (thread name, label...) of executed visible operations
        self.steps = 0
        self.max_steps = max_steps
        self.timed_wakeups = []          # (thread, lock, clock) of timed acquires that expired while nothing could move
        self.max_timed_wakeups = 4
        self.clock = 0.0
        self.horizon = horizon
        self.eager_time = eager_time
        self.abort = False
        self.traced = {}           # id(obj) -> tag ; objects whose slots are yield points
        self.trace_all = trace_all
        self.names = {}            # id(obj) -> tag for locks etc.
        self.keep = []             # keep tagged objects alive so ids are not reused
        self.fresh = 0
        self.outcome = None
        self.stuck = []
        self.on_step = None        # callable(sched, vt) after each scheduled step (monitors)
        self.log_enabled = False   # put ("-","enabled",[names]) into the event stream before each step
        self.context_switches = 0
        self.step_timeout = 30.0
        self.start_gate = None     # foreground threads start only once this returns true (e.g. timers enabled)
        self._last = None

    # ---- naming --------------------------------------------------------------------------------
    def tag(self, obj, name, keep=True):
        self.names[id(obj)] = name
        if keep:
            self.keep.append(obj)       # (so that the id stays its own; keep=False: the object may die, as weakly held ones must)
        return obj

    def trace(self, obj, name, keep=True):
        self.traced[id(obj)] = name
        self.tag(obj, name, keep)
        return obj

    def name_of(self, obj):
        n = self.names.get(id(obj))
        if n is None:
            n = "#%d" % self.fresh
            self.fresh += 1
            self.tag(obj, n)
        return n

    # ---- virtual threads -----------------------------------------------------------------------
    def me(self):
        return self.by_ident.get(_get_ident())

    def spawn(self, name, fn, background=False, timekeeper=False):
        vt = VT(name, len(self.vts), fn)
        vt.background = background
        vt.timekeeper = timekeeper
        self.vts.append(vt)
        t = _threading.Thread(target=self._body, args=(vt,), name="vt-" + name, daemon=True)
        vt.os_thread = t
        t.start()
        return vt

    def _body(self, vt):
        vt.sem.acquire()           # wait for the first turn
        vt.ident = _get_ident()
        self.by_ident[vt.ident] = vt
        try:
            if self.abort:
                raise SchedAbort()
            vt.result = vt.fn()
        except SchedAbort:
            pass
        except BaseException as e:  # noqa
            vt.exc = e
        finally:
            vt.state = "done"
            self.by_ident.pop(vt.ident, None)
            if not self.abort:
                self.ctl.release()

    def yield_point(self, op):
        """called by a virtual thread BEFORE a visible operation; returns when it may perform it"""
        vt = self.me()
        if vt is None:
            return None
        if self.abort:
            raise SchedAbort()
        if getattr(vt, "atomic", 0) > 0:
            # inside a section the harness declared atomic: no pre-emption, unless the thread has to block
            k = op[0]
            if k not in ("sleep", "until", "cond", "join", "start") and not (k in ("acq", "acqt") and op[1].held):
                return vt
        vt.pending = op
        self.ctl.release()
        vt.sem.acquire()
        if self.abort:
            raise SchedAbort()
        return vt

    def emit(self, *label):
        vt = self.me()
        self.events.append(((vt.name if vt else "-"),) + label)

    def note(self, *words):
        """a non-step line in the event stream (call/ret markers of scenario threads)"""
        self.events.append(("-", "note") + words)

    # ---- enabledness / time ----------------------------------------------------------------------
    def is_enabled(self, vt):
        op = vt.pending
        k = op[0]
        if k == "start":
            return vt.background or self.start_gate is None or bool(self.start_gate())
        if k == "acq":
            return not op[1].held
        if k == "acqi":
            return True             # may be "interrupted" while the lock is held
        if k == "acqt":
            return (not op[1].held) or vt.timed_out
        if k == "sleep" or k == "until":
            return self.clock >= op[1]
        if k == "join":
            return op[1].state == "done"
        if k == "cond":
            return bool(op[1]())
        return True

    def _time_points(self):
        pts = []
        for vt in self.vts:
            if vt.state == "ready" and vt.pending[0] in ("sleep", "until") and vt.pending[1] > self.clock:
                pts.append(vt.pending[1])
        return pts

    def can_advance(self):
        for vt in self.vts:
            if vt.timekeeper and vt.state == "ready" and not (vt.pending[0] == "sleep" and vt.pending[1] > self.clock):
                return False   # a timekeeper is awake: steps are instantaneous, time stands still
        return bool(self._time_points())

    # ---- controller ------------------------------------------------------------------------------
    def run(self):
        global CUR
        CUR = self
        lines_on = False
        if LINE_MODE:
            line_mode_on()
            lines_on = True
            self.max_steps *= 6
        try:
            while True:
                ready = [vt for vt in self.vts if vt.state == "ready"]
                if all(vt.background for vt in ready):
                    self.outcome = "done"
                    break
                cands = [vt for vt in ready if self.is_enabled(vt)]
                fg = [vt for vt in cands if not vt.background]
                if not fg and len(self.timed_wakeups) < self.max_timed_wakeups:
                    # nothing can move: a thread parked in a TIMED acquire (the library as it stands has none) gets its timeout
                    tw = [vt for vt in ready if not vt.background and vt.pending[0] == "acqt" and vt.pending[1].held]
                    if tw:
                        vt = min(tw, key=lambda v: v.pending[2])
                        vt.timed_out = True
                        cands.append(vt)
                        fg.append(vt)
                adv = self.can_advance()
                if not fg and not (adv and self.clock < self.horizon):
                    # background threads (timer daemon) may still have work that unblocks others:
                    # let them run while the clock is within the horizon
                    bg = [vt for vt in cands if vt.background]
                    if bg and self.clock <= self.horizon and self._bg_useful():
                        pass
                    else:
                        self.outcome = "stuck"
                        self.stuck = [vt for vt in ready if not vt.background]
                        break
                if self.steps >= self.max_steps:
                    self.outcome = "bound"
                    self.stuck = [vt for vt in ready if not vt.background]
                    break
                options = list(cands)
                if adv and (not self.eager_time or not cands):
                    options.append(ADVANCE)
                if not options:
                    if adv:
                        options = [ADVANCE]
                    else:
                        self.outcome = "stuck"
                        self.stuck = [vt for vt in ready if not vt.background]
                        break
                i = self.chooser(self, options) if len(options) > 1 else 0
                self.choices.append(i)
                self.cand_counts.append(len(options))
                pick = options[i]
                if pick is ADVANCE:
                    self.clock = min(self._time_points())
                    self.events.append(("-", "tick", self.clock))
                    continue
                if self.log_enabled:
                    self.events.append(("-", "enabled", [vt.name for vt in cands if vt.pending[0] != "start"]))
                self.steps += 1
                pick.steps += 1
                if self._last is not None and self._last is not pick and self._last.state == "ready":
                    self.context_switches += 1
                self._last = pick
                pick.sem.release()
                if not self.ctl.acquire(True, self.step_timeout):
                    self.outcome = "hung"      # a virtual thread blocked outside the scheduler
                    self.stuck = [pick]
                    break
                if self.on_step is not None:
                    self.on_step(self, pick)
        finally:
            self.teardown()
            CUR = None
            if lines_on:
                line_mode_off()
        return self.outcome

    def _bg_useful(self):
        # background threads are "useful" when some foreground thread waits on time or on a signal
        # that a background thread may fire; conservatively: while clock <= horizon
        return self.clock <= self.horizon and self.steps < self.max_steps

    def teardown(self):
        self.abort = True
        for vt in self.vts:
            if vt.state != "done":
                try:
                    vt.sem.release()
                except RuntimeError:
                    pass
        for vt in self.vts:
            if vt.os_thread is not None:
                vt.os_thread.join(2.0)

    # ---- time API used by patched modules -------------------------------------------------------
    def vtime(self):
        return self.clock

    def vsleep(self, seconds):
        vt = self.me()
        if vt is None:
            return
        wake = self.clock + max(seconds, 0)
        self.yield_point(("sleep", wake))
        self.emit("wake", self.clock)

    def until(self, t):
        if self.me() is None:
            return
        self.yield_point(("until", t))

    def wait_cond(self, fn):
        if self.me() is None:
            return
        self.yield_point(("cond", fn))


# ------------------------------------------------------------------------------------------------
# replacement for _thread.allocate_lock()
# ------------------------------------------------------------------------------------------------
class SchedLock(object):
    __slots__ = ("held", "owner", "real", "__weakref__")

    def __init__(self):
        self.held = False
        self.owner = None
        self.real = None

    def _sched(self):
        s = CUR
        if s is None or s.me() is None:
            return None
        return s

    def acquire(self, blocking=True, timeout=-1):
        s = self._sched()
        if s is None:
            # unscheduled context (set-up / tear-down): plain semantics, never block forever
            if self.held:
                if CUR is not None and CUR.abort:
                    raise SchedAbort()
                if not blocking:
                    return False
                raise RuntimeError("unscheduled acquire of a held SchedLock")
            self.held = True
            return True
        if not blocking:
            s.yield_point(("tryacq", self))
            if self.held:
                s.emit("tryacq", s.name_of(self), False)
                return False
            self.held = True
            self.owner = s.me()
            s.emit("tryacq", s.name_of(self), True)
            return True
        if timeout is not None and timeout >= 0:
            vt = s.me()
            vt.timed_out = False
            s.yield_point(("acqt", self, s.clock + timeout))
            if self.held:
                # resumed by the timeout, not by a release: the thread runs although nothing has happened
                vt.timed_out = False
                s.timed_wakeups.append((vt.name, s.name_of(self), s.clock))
                s.emit("acq_timeout", s.name_of(self))
                return False
            vt.timed_out = False
        else:
            vt = s.me()
            if vt is not None and vt.inject_exc is not None:
                # a thread whose wait for the mutex can be interrupted: scheduled while the lock is still held, it gets the
                # exception (as the main thread gets one from a signal handler while blocked in acquire()); otherwise it acquires
                s.yield_point(("acqi", self))
                if self.held:
                    exc, vt.inject_exc = vt.inject_exc, None
                    s.emit("acq_interrupted", s.name_of(self))
                    raise exc
                vt.inject_exc = None
            else:
                s.yield_point(("acq", self))
        assert not self.held, "scheduler released a thread into a held lock"
        self.held = True
        self.owner = s.me()
        s.emit("acq", s.name_of(self))
        return True

    def release(self):
        s = self._sched()
        if s is not None:
            s.yield_point(("rel", self))
        if not self.held:
            raise RuntimeError("release unlocked lock")
        self.held = False
        self.owner = None
        if s is not None:
            s.emit("rel", s.name_of(self))

    def locked(self):
        return self.held

    def __enter__(self):
        self.acquire()
        return True

    def __exit__(self, *a):
        self.release()


def sched_allocate_lock():
    return SchedLock()


# ------------------------------------------------------------------------------------------------
# traced __slots__ members
# ------------------------------------------------------------------------------------------------
def digest(v):
    s = CUR
    if v is None or isinstance(v, (bool, int, str)):
        return v
    if isinstance(v, float):
        return v
    if isinstance(v, (list, tuple)):
        return [digest(x) for x in v]
    if s is not None:
        n = s.names.get(id(v))
        if n is not None:
            return n
    f = getattr(v, "_verif_tag", None)
    if f is not None:
        return f
    return "<%s>" % type(v).__name__


class TracedSlot(object):
    def __init__(self, cls, slot):
        self.cls = cls
        self.slot = slot
        self.desc = cls.__dict__[slot]

    def __get__(self, obj, typ=None):
        if obj is None:
            return self
        s = CUR
        if s is None:
            return self.desc.__get__(obj, typ)
        tag = s.traced.get(id(obj))
        if tag is None and not s.trace_all:
            return self.desc.__get__(obj, typ)
        if s.me() is None:
            return self.desc.__get__(obj, typ)
        if tag is None:
            tag = s.name_of(obj)
        s.yield_point(("R", obj, self.slot))
        v = self.desc.__get__(obj, typ)
        s.emit("R", tag, self.slot, digest(v))
        return v

    def __set__(self, obj, value):
        s = CUR
        if s is None:
            return self.desc.__set__(obj, value)
        tag = s.traced.get(id(obj))
        if (tag is None and not s.trace_all) or s.me() is None:
            return self.desc.__set__(obj, value)
        if tag is None:
            tag = s.name_of(obj)
        s.yield_point(("W", obj, self.slot))
        self.desc.__set__(obj, value)
        s.emit("W", tag, self.slot, digest(value))

    def __delete__(self, obj):
        self.desc.__delete__(obj)

    def raw(self, obj):
        return self.desc.__get__(obj, type(obj))


_installed = {}


def trace_slots(cls, slots):
    for slot in slots:
        d = cls.__dict__[slot]
        if isinstance(d, TracedSlot):
            continue
        _installed[(cls, slot)] = d
        setattr(cls, slot, TracedSlot(cls, slot))


def raw(obj, slot):
    """read a slot without a yield point (for digests and monitors)"""
    for cls in type(obj).__mro__:
        d = cls.__dict__.get(slot)
        if d is not None:
            if isinstance(d, TracedSlot):
                return d.raw(obj)
            return d.__get__(obj, type(obj))
    raise AttributeError(slot)


# ------------------------------------------------------------------------------------------------
# threading shim for mo_threads.threads
# ------------------------------------------------------------------------------------------------
class ShimThread(object):
    """stands in for threading.Thread inside mo_threads.threads"""
    _counter = 0

    def __init__(self, group=None, target=None, name=None, args=(), kwargs=None, daemon=False):
        ShimThread._counter += 1
        self.name = name or ("Thread-%d" % ShimThread._counter)
        self._target = target
        self._args = args
        self._kwargs = kwargs or {}
        self.daemon = daemon
        self.vt = None
        self._started = False

    def start(self):
        s = CUR
        if s is None:
            raise RuntimeError("ShimThread.start() outside a scheduled run")
        self._started = True
        me = s.me()
        vt = s.spawn(self.name, self._run, background=getattr(self, "_verif_background", False),
                     timekeeper=getattr(self, "_verif_timekeeper", False))
        vt.shim = self
        self.vt = vt
        if me is not None:
            s.emit("spawn", self.name)

    def _run(self):
        _shim_current[_get_ident()] = self
        try:
            self._target(*self._args, **self._kwargs)
        finally:
            _shim_current.pop(_get_ident(), None)

    def is_alive(self):
        return self._started and self.vt is not None and self.vt.state != "done"

    def isDaemon(self):
        return self.daemon

    def join(self, timeout=None):
        s = CUR
        if s is None or s.me() is None or self.vt is None:
            return
        s.yield_point(("join", self.vt))

    @property
    def ident(self):
        return self.vt.ident if self.vt else None


_shim_current = {}
_shim_main = ShimThread(name="MainThread")


class ThreadingShim(object):
    Thread = ShimThread

    @staticmethod
    def current_thread():
        t = _shim_current.get(_get_ident())
        if t is not None:
            return t
        s = CUR
        if s is not None:
            vt = s.me()
            if vt is not None:
                if vt.shim is None:
                    vt.shim = ShimThread(name=vt.name)
                    vt.shim.vt = vt
                    vt.shim._started = True
                return vt.shim
        return _shim_main

    @staticmethod
    def main_thread():
        return _shim_main

    @staticmethod
    def enumerate():
        s = CUR
        return [vt.shim for vt in (s.vts if s else []) if vt.shim is not None and vt.state != "done"]

    @staticmethod
    def _register_atexit(fn, *a, **k):
        return None

    get_ident = staticmethod(_get_ident)


# ------------------------------------------------------------------------------------------------
# install
# ------------------------------------------------------------------------------------------------
_state = {"installed": False}


def install():
    """Import the REAL mo_threads from /repo, stop its real threads, and route every lock, the clock
    and thread start-up through the scheduler.  Idempotent."""
    if _state["installed"]:
        return sys.modules["mo_threads"]
    import mo_threads
    assert os.path.realpath(mo_threads.__file__).startswith(os.path.realpath(REPO)), mo_threads.__file__
    from mo_threads import threads, signals, lock, till, queues
    # stop the real timer daemon and main thread bookkeeping started at import
    try:
        threads.stop_main_thread(silent=True)
    except BaseException:
        pass
    try:
        import atexit  # noqa
        _threading._threading_atexits[:] = [f for f in _threading._threading_atexits
                                            if getattr(f, "__name__", "") != "stop_main_thread"
                                            and "stop_main_thread" not in repr(f)]
    except Exception:
        pass

    signals._allocate_lock = sched_allocate_lock
    lock._allocate_lock = sched_allocate_lock
    till._allocate_lock = sched_allocate_lock
    threads.allocate_lock = sched_allocate_lock
    signals.DONE.lock = SchedLock()
    signals.NEVER.lock = SchedLock()
    till.Till.locker = SchedLock()
    threads.ALL_LOCK = SchedLock()
    threads.threading = ThreadingShim
    threads.sleep = lambda d: CUR.vsleep(d) if CUR is not None and CUR.me() is not None else None
    till.time = lambda: (CUR.vtime() if CUR is not None else 0.0)
    till.sleep = lambda d: (CUR.vsleep(d) if CUR is not None else None)
    queues.time = lambda: (CUR.vtime() if CUR is not None else 0.0)
    try:
        from mo_threads import processes
        processes.allocate_lock = sched_allocate_lock
        processes.next_process_id_locker = SchedLock()
        processes.ALL_LOCK = threads.ALL_LOCK
        processes.unix_now = lambda: (CUR.vtime() if CUR is not None else 0.0)
    except Exception:
        pass
    try:
        from mo_threads import commands
        commands.lifetime_manager_locker = lock.Lock("cmd lock")
    except Exception:
        pass

    trace_slots(signals.Signal, ["_go", "job_queue", "waiting_threads"])
    trace_slots(lock.Lock, ["waiting"])
    trace_slots(signals.AndSignals, ["remaining"])
    _state["installed"] = True
    return mo_threads


def reset_globals():
    """fresh module-level state of mo_threads before each run"""
    from mo_threads import threads, till, signals
    threads.ALL.clear()
    threads.ALL_LOCK.held = False
    threads.MAIN_THREAD = None
    till.Till.locker = SchedLock()
    till.Till.new_timers = []
    till.Till.next_ping = 0.0
    till.enabled = signals.Signal()
    signals.DONE.lock = SchedLock()
    signals.NEVER.lock = SchedLock()
    _shim_current.clear()


def start_timers(sched, name="timers"):
    """run the REAL till.daemon as a background, time-keeping virtual thread; returns its please_stop"""
    from mo_threads import till, signals
    please_stop = signals.Signal()
    till.enabled = signals.Signal()

    def body():
        till.daemon(please_stop)

    vt = sched.spawn(name, body, background=True, timekeeper=True)
    sched.start_gate = lambda: bool(raw(till.enabled, "_go"))   # as start_main_thread() waits for till.enabled
    return please_stop, vt


# ------------------------------------------------------------------------------------------------
# choosers
# ------------------------------------------------------------------------------------------------
def replay_chooser(choices):
    it = iter(list(choices))

    def choose(sched, cands):
        try:
            i = next(it)
        except StopIteration:
            return 0
        return i % len(cands)

    return choose


def deviation_chooser(devs):
    """iterative context bounding: the default policy keeps running the thread that ran last (when it is blocked or done: the
    first enabled candidate); `devs` maps a decision number (index into Sched.choices) to the candidate taken there instead"""
    def choose(sched, cands):
        n = len(sched.choices)
        if n in devs:
            return devs[n] % len(cands)
        last = sched._last
        if last is not None:
            for i, c in enumerate(cands):
                if c is last:
                    return i
        return 0

    return choose


def pct_chooser(seed, depth=2, est_steps=200):
    """PCT: random priorities, `depth-1` priority change points (Burckhardt et al.)"""
    rng = random.Random(seed)
    prio = {}
    change = set(rng.randrange(est_steps) for _ in range(max(depth - 1, 0)))
    low = [0]

    def choose(sched, cands):
        for c in cands:
            key = c if c is ADVANCE else c.name
            if key not in prio:
                prio[key] = rng.random() + 1.0
        if sched.steps in change:
            best = max(cands, key=lambda c: prio[c if c is ADVANCE else c.name])
            low[0] -= 1
            prio[best if best is ADVANCE else best.name] = low[0]
            change.discard(sched.steps)
        best = max(range(len(cands)), key=lambda i: prio[cands[i] if cands[i] is ADVANCE else cands[i].name])
        return best

    return choose


def sticky_chooser(seed, switch_prob=0.3):
    """random walk that tends to keep running the same thread (longer atomic stretches)"""
    rng = random.Random(seed)
    last = [None]

    def choose(sched, cands):
        if last[0] is not None and rng.random() > switch_prob:
            for i, c in enumerate(cands):
                if c is not ADVANCE and c.name == last[0]:
                    return i
        i = rng.randrange(len(cands))
        last[0] = None if cands[i] is ADVANCE else cands[i].name
        return i

    return choose
