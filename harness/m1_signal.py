"""
M1 correspondence (lock-step) + monitors for C01/C02: the REAL mo_threads.signals.Signal under the
deterministic scheduler, at single-shared-access granularity, against Model/SignalCore.lean.
"""
from . import detsched as ds

OPS = ["wait", "go", "bool", "then", "remove_own", "remove_any"]


def gen_scenario(rng, max_threads=6, max_ops=3, profile=None):
    """a scenario = {never, threads: [[op,...],...], raises: [registration ids that raise]}"""
    n = rng.randint(1, max_threads)
    never = rng.random() < 0.08
    weights = profile or rng.choice([
        [3, 3, 1, 2, 1, 1],   # mixed
        [4, 2, 1, 0, 0, 0],   # wait/go heavy
        [1, 2, 1, 4, 2, 1],   # then/remove heavy
        [2, 4, 2, 2, 0, 1],   # many go
    ])
    threads = []
    for _ in range(n):
        k = rng.randint(1, max_ops)
        threads.append([rng.choices(OPS, weights)[0] for _ in range(k)])
    if not never and not any("go" in t for t in threads) and rng.random() < 0.7:
        threads[rng.randrange(n)].append("go")
    n_then = sum(t.count("then") for t in threads)
    raises = sorted(k for k in range(n_then) if rng.random() < 0.3)
    return {"never": never, "threads": threads, "raises": raises}


def shape(sc):
    ab = {"wait": "w", "go": "g", "bool": "b", "then": "T", "remove_own": "r", "remove_any": "R"}
    return "n%d:%s%s" % (len(sc["threads"]), "/".join("".join(ab[o] for o in t) for t in sc["threads"]),
                         ":never" if sc["never"] else "")


def _fmt(ev):
    kind = ev[0]
    if kind in ("acq", "rel"):
        return [kind, ev[1]]
    if kind in ("R", "W"):
        slot, v = ev[2], ev[3]
        if slot == "_go":
            return [kind, slot, "True" if v else "False"]
        if v is None:
            return [kind, slot, "None"]
        return [kind, slot, "[" + ",".join(str(x[0]) for x in v) + "]"]
    return [str(x) for x in ev]


def to_lines(events):
    lines = []
    for ev in events:
        if ev[0] == "-":
            if ev[1] == "enabled":
                lines.append(" ".join(["enabled"] + [n[1:] for n in ev[2]]))
            elif ev[1] == "note":
                lines.append(" ".join(str(w) for w in ev[2:]))
            continue
        lines.append(" ".join(["step", ev[0][1:]] + [str(w) for w in _fmt(ev[1:])]))
    return lines


def run_scenario(sc, chooser=None, seed=0, max_steps=4000):
    """returns dict(lines=[protocol lines], outcome, monitor=[violations], choices=[...], ...)"""
    ds.install()
    ds.reset_globals()
    from mo_threads import signals
    sched = ds.Sched(chooser=chooser, seed=seed, max_steps=max_steps)
    sched.log_enabled = True
    sig = signals.Never() if sc["never"] else signals.Signal("S")
    sig.lock = ds.SchedLock()
    sched.trace(sig, "S")
    sched.tag(sig.lock, "L")
    raises = set(sc["raises"])
    st = {"nextk": 0, "registered": [], "ran": {}, "errs": {}, "ran_when": {}, "go_returned": False,
          "bool_seq": {}, "viol": [], "then_ret": {}, "rm_calls": [], "go_calls": []}
    cbs = {}
    own = {}

    def make_cb(k, clone=False):
        if k in cbs and not clone:
            return cbs[k]

        class CB(object):
            """a callback object: running it is a visible step; comparing it (remove_then's `j == target`) is a pre-emption
            point of its own — invisible to the model, where the comparison happens inside the locked enumerate step — so that a
            remove_then() that edits the list without the lock can be caught in the middle of its scan"""
            _verif_tag = k

            def __call__(self):
                sched.yield_point(("cb", k))
                sched.emit("cb", k)
                st["ran"][k] = st["ran"].get(k, 0) + 1
                st["ran_when"].setdefault(k, []).append(bool(ds.raw(sig, "_go")))
                if k in raises:
                    raise ValueError("callback %d raises" % k)

            def __eq__(self, other):
                if sched.me() is not None and not sched.abort:
                    sched.yield_point(("cmp", k))
                # equality is by value (as for the bound methods the library itself registers, which are a new object at
                # every look-up): a clone of callback k equals callback k
                return getattr(other, "_verif_tag", None) == k and type(other).__name__ == "CB"

            def __ne__(self, other):
                return not self.__eq__(other)

            def __hash__(self):
                return hash(("CB", k))

        cb = CB()
        if not clone:
            cbs[k] = cb
        return cb

    def make_err(k):
        def err(cause):
            sched.yield_point(("err", k))
            sched.emit("err", k)
            st["errs"][k] = st["errs"].get(k, 0) + 1
        return err

    def body(ti, ops):
        def run():
            mine = own.setdefault(ti, [])
            for op in ops:
                if op == "wait":
                    sched.note("call", ti, "wait")
                    r = sig.wait()
                    sched.note("ret", ti, "wait", r)
                    if not ds.raw(sig, "_go"):
                        st["viol"].append("C01: wait() returned on thread %d while the flag is false" % ti)
                        st["viol"].append("C20: thread %d came back from Signal.wait() although nothing had happened (flag false, no go())" % ti)
                elif op == "go":
                    sched.note("call", ti, "go")
                    st["go_calls"].append(len(sched.events))
                    sig.go()
                    sched.note("ret", ti, "go")
                    if not sc["never"]:
                        st["go_returned"] = True
                        if not ds.raw(sig, "_go"):
                            st["viol"].append("C01: go() returned with the flag false")
                elif op == "bool":
                    sched.note("call", ti, "bool")
                    r = bool(sig)
                    sched.note("ret", ti, "bool", r)
                    seq = st["bool_seq"].setdefault(ti, [])
                    if seq and seq[-1] and not r:
                        st["viol"].append("C01: flag read True then False on thread %d" % ti)
                    seq.append(r)
                elif op == "then":
                    k = st["nextk"]
                    st["nextk"] += 1
                    st["registered"].append(k)
                    mine.append(k)
                    sched.note("call", ti, "then")
                    sig.then(make_cb(k), make_err(k))
                    sched.note("ret", ti, "then")
                    st["then_ret"][k] = len(sched.events)
                else:
                    if op == "remove_own":
                        k = mine[-1] if mine else 999
                    else:
                        reg = st["registered"]
                        k = reg[(ti * 7 + len(reg)) % len(reg)] if reg else 999
                    sched.note("call", ti, "remove", k)
                    st["rm_calls"].append([k, len(sched.events), None])
                    rec = st["rm_calls"][-1]
                    # an equal, not identical, callable every other time (k + thread id decides, so that replays agree)
                    sig.remove_then(make_cb(k, clone=((k + ti) % 2 == 0)) if k != 999 else make_cb(k))
                    sched.note("ret", ti, "remove")
                    rec[2] = len(sched.events)
        return run

    for ti, ops in enumerate(sc["threads"]):
        sched.spawn("t%d" % ti, body(ti, ops))
    outcome = sched.run()
    stuck = sorted(int(vt.name[1:]) for vt in sched.stuck)
    go_now = bool(ds.raw(sig, "_go"))
    nk = st["nextk"]
    lines = to_lines(sched.events)
    lines.append(" ".join(["end", outcome] + [str(t) for t in stuck]))
    lines.append(" ".join(["final", "go=%s" % ("True" if go_now else "False"),
                           "ran=" + ",".join("%d:%d" % (k, st["ran"].get(k, 0)) for k in range(nk)),
                           "errs=" + ",".join("%d:%d" % (k, st["errs"].get(k, 0)) for k in range(nk))]))

    # ---- monitors (independent of the Lean model) ------------------------------------------------
    viol = st["viol"]
    for who, name, clock in sched.timed_wakeups:
        viol.append("C20: thread %s came back from a timed acquire of %s although nothing had happened (polling instead of parking)" % (who, name))
    if outcome == "bound":
        viol.append("C20: step bound exceeded (%d steps) with threads %s still running" % (sched.steps, stuck))
    for k, n in st["ran"].items():
        if n > 1:
            viol.append("C02: callback %d ran %d times" % (k, n))
        if not all(st["ran_when"].get(k, [])):
            viol.append("C02: callback %d ran while the signal read false" % k)
    if outcome != "bound":
        # every thread that is not stuck has returned: handlers of run+raising callbacks must have run once
        for k in range(nk):
            e = st["errs"].get(k, 0)
            if e > 1 or (e == 1 and not (k in raises and st["ran"].get(k, 0) >= 1)):
                viol.append("C02: error handler of callback %d ran %d times" % (k, e))
    if outcome == "done" and go_now:
        # every thread has returned and the flag is true.  A callback whose then() returned and that nobody tried to remove
        # has run (by go(), or at once if it came late) ...
        targeted = set(k for k, _, _ in st["rm_calls"])
        for k in range(nk):
            if k in st["then_ret"] and k not in targeted and st["ran"].get(k, 0) == 0:
                viol.append("C02: callback %d was registered (then() returned), never removed, the signal is true and every call "
                            "has returned, but the callback never ran" % k)
    first_go = min(st["go_calls"]) if st["go_calls"] else None
    for k, c0, c1 in st["rm_calls"]:
        # ... and one removed (remove_then returned) before any go() was called, after its then() had returned, never runs
        if k in st["then_ret"] and c1 is not None and st["then_ret"][k] <= c0 and (first_go is None or c1 <= first_go) \
                and st["ran"].get(k, 0) > 0:
            viol.append("C02: callback %d was removed (remove_then returned) before go() was called, but it ran" % k)
    if outcome == "stuck" and go_now:
        viol.append("C01: flag is true but threads %s never returned (lost wake-up / deadlock)" % stuck)
    if outcome == "stuck" and not go_now and st["go_returned"]:
        viol.append("C01: go() returned but the flag is false")
    for vt in sched.vts:
        if vt.exc is not None:
            viol.append("unexpected exception in %s: %r" % (vt.name, vt.exc))
    return {"lines": lines, "outcome": outcome, "monitor": viol, "choices": list(sched.choices),
            "steps": sched.steps, "switches": sched.context_switches, "stuck": stuck,
            "ran": dict(st["ran"]), "errs": dict(st["errs"]), "go": go_now, "nk": nk,
            "cand_counts": list(sched.cand_counts)}
