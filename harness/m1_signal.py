"""
M1 correspondence (lock-step) + monitors for C01/C02: the REAL mo_threads.signals.Signal under the
deterministic scheduler, at single-shared-access granularity, against Model/SignalCore.lean.
"""
from . import detsched as ds

OPS = ["wait", "go", "bool", "then", "remove_own", "remove_any"]


def gen_scenario(rng, max_threads=6, max_ops=3, profile=None):
    """a scenario = {never, threads: [[op,...],...], raises: [registration ids that raise]}"""
    n = rng.randint(1, max_threads)
    never = rng.random() < 0.08
    weights = profile or rng.choice([
        [3, 3, 1, 2, 1, 1],   # mixed
        [4, 2, 1, 0, 0, 0],   # wait/go heavy
        [1, 2, 1, 4, 2, 1],   # then/remove heavy
        [2, 4, 2, 2, 0, 1],   # many go
    ])
    threads = []
    for _ in range(n):
        k = rng.randint(1, max_ops)
        threads.append([rng.choices(OPS, weights)[0] for _ in range(k)])
    if not never and not any("go" in t for t in threads) and rng.random() < 0.7:
        threads[rng.randrange(n)].append("go")
    n_then = sum(t.count("then") for t in threads)
    raises = sorted(k for k in range(n_then) if rng.random() < 0.3)
    return {"never": never, "threads": threads, "raises": raises}


def shape(sc):
    ab = {"wait": "w", "go": "g", "bool": "b", "then": "T", "remove_own": "r", "remove_any": "R"}
    return "n%d:%s%s" % (len(sc["threads"]), "/".join("".join(ab[o] for o in t) for t in sc["threads"]),
                         ":never" if sc["never"] else "")


def _fmt(ev):
    kind = ev[0]
    if kind in ("acq", "rel"):
        return [kind, ev[1]]
    if kind in ("R", "W"):
        slot, v = ev[2], ev[3]
        if slot == "_go":
            return [kind, slot, "True" if v else "False"]
        if v is None:
            return [kind, slot, "None"]
        return [kind, slot, "[" + ",".join(str(x[0]) for x in v) + "]"]
    return [str(x) for x in ev]


def to_lines(events):
    lines = []
    for ev in events:
        if ev[0] == "-":
            if ev[1] == "enabled":
                lines.append(" ".join(["enabled"] + [n[1:] for n in ev[2]]))
            elif ev[1] == "note":
                lines.append(" ".join(str(w) for w in ev[2:]))
            continue
        lines.append(" ".join(["step", ev[0][1:]] + [str(w) for w in _fmt(ev[1:])]))
    return lines


def run_scenario(sc, chooser=None, seed=0, max_steps=4000):
    """returns dict(lines=[protocol lines], outcome, monitor=[violations], choices=[...], ...)"""
    ds.install()
    ds.reset_globals()
    from mo_threads import signals
    sched = ds.Sched(chooser=chooser, seed=seed, max_steps=max_steps)
    sched.log_enabled = True
    sig = signals.Never() if sc["never"] else signals.Signal("S")
    sig.lock = ds.SchedLock()
    sched.trace(sig, "S")
    sched.tag(sig.lock, "L")
    raises = set(sc["raises"])
    st = {"nextk": 0, "registered": [], "ran": {}, "errs": {}, "ran_when": {}, "go_returned": False,
          "bool_seq": {}, "viol": [], "then_ret": {}, "rm_calls": [], "go_calls": []}
    cbs = {}
    own = {}

    def make_cb(k, clone=False):
        if k in cbs and not clone:
            return cbs[k]

        class CB(object):
            """a callback object: running it is a visible step; comparing it (remove_then's `j == target`) is a pre-emption
            point of its own — invisible to the model, where the comparison happens inside the locked enumerate step — so that a
            remove_then() that edits the list without the lock can be caught in the middle of its scan"""
            _verif_tag = k

            def __call__(self):
                sched.yield_point(("cb", k))
                sched.emit("cb", k)
                st["ran"][k] = st["ran"].get(k, 0) + 1
                st["ran_when"].setdefault(k, []).append(bool(ds.raw(sig, "_go")))
                if k in raises:
                    raise ValueError("callback %d raises" % k)

            def __eq__(self, other):
                if sched.me() is not None and not sched.abort:
                    sched.yield_point(("cmp", k))
                # equality is by value (as for the bound methods the library itself registers, which are a new object at
                # every look-up): a clone of callback k equals callback k
                return getattr(other, "_verif_tag", None) == k and type(other).__name__ == "CB"

            def __ne__(self, other):
                return not self.__eq__(other)

            def __hash__(self):
                return hash(("CB", k))

        cb = CB()
        if not clone:
            cbs[k] = cb
        return cb

    def make_err(k):
        def err(cause):
            sched.yield_point(("err", k))
            sched.emit("err", k)
            st["errs"][k] = st["errs"].get(k, 0) + 1
        return err

    def body(ti, ops):
        def run():
            mine = own.setdefault(ti, [])
            for op in ops:
                if op == "wait":
                    sched.note("call", ti, "wait")
                    r = sig.wait()
                    sched.note("ret", ti, "wait", r)
                    if not ds.raw(sig, "_go"):
                        st["viol"].append("C01: wait() returned on thread %d while the flag is false" % ti)
                        st["viol"].append("C20: thread %d came back from Signal.wait() although nothing had happened (flag false, no go())" % ti)
                elif op == "go":
                    sched.note("call", ti, "go")
                    st["go_calls"].append(len(sched.events))
                    sig.go()
                    sched.note("ret", ti, "go")
                    if not sc["never"]:
                        st["go_returned"] = True
                        if not ds.raw(sig, "_go"):
                            st["viol"].append("C01: go() returned with the flag false")
                elif op == "bool":
                    sched.note("call", ti, "bool")
                    r = bool(sig)
                    sched.note("ret", ti, "bool", r)
                    seq = st["bool_seq"].setdefault(ti, [])
                    if seq and seq[-1] and not r:
                        st["viol"].append("C01: flag read True then False on thread %d" % ti)
                    seq.append(r)
                elif op == "then":
                    k = st["nextk"]
                    st["nextk"] += 1
                    st["registered"].append(k)
                    mine.append(k)
                    sched.note("call", ti, "then")
                    sig.then(make_cb(k), make_err(k))
                    sched.note("ret", ti, "then")
                    st["then_ret"][k] = len(sched.events)
                else:
                    if op == "remove_own":
                        k = mine[-1] if mine else 999
                    else:
                        reg = st["registered"]
                        k = reg[(ti * 7 + len(reg)) % len(reg)] if reg else 999
                    sched.note("call", ti, "remove", k)
                    st["rm_calls"].append([k, len(sched.events), None])
                    rec = st["rm_calls"][-1]
                    # an equal, not identical, callable every other time (k + thread id decides, so that replays agree)
                    sig.remove_then(make_cb(k, clone=((k + ti) % 2 == 0)) if k != 999 else make_cb(k))
                    sched.note("ret", ti, "remove")
                    rec[2] = len(sched.events)
        return run

    for ti, ops in enumerate(sc["threads"]):
        sched.spawn("t%d" % ti, body(ti, ops))
    outcome = sched.run()
    stuck = sorted(int(vt.name[1:]) for vt in sched.stuck)
    go_now = bool(ds.raw(sig, "_go"))
    nk = st["nextk"]
    lines = to_lines(sched.events)
    lines.append(" ".join(["end", outcome] + [str(t) for t in stuck]))
    lines.append(" ".join(["final", "go=%s" % ("True" if go_now else "False"),
                           "ran=" + ",".join("%d:%d" % (k, st["ran"].get(k, 0)) for k in range(nk)),
                           "errs=" + ",".join("%d:%d" % (k, st["errs"].get(k, 0)) for k in range(nk))]))

    # ---- monitors (independent of the Lean model) ------------------------------------------------
    viol = st["viol"]
    for who, name, clock in sched.timed_wakeups:
        viol.append("C20: thread %s came back from a timed acquire of %s although nothing had happened (polling instead of parking)" % (who, name))
    if outcome == "bound":
        viol.append("C20: step bound exceeded (%d steps) with threads %s still running" % (sched.steps, stuck))
    for k, n in st["ran"].items():
        if n > 1:
            viol.append("C02: callback %d ran %d times" % (k, n))
        if not all(st["ran_when"].get(k, [])):
            viol.append("C02: callback %d ran while the signal read false" % k)
    if outcome != "bound":
        # every thread that is not stuck has returned: handlers of run+raising callbacks must have run once
        for k in range(nk):
            e = st["errs"].get(k, 0)
            if e > 1 or (e == 1 and not (k in raises and st["ran"].get(k, 0) >= 1)):
                viol.append("C02: error handler of callback %d ran %d times" % (k, e))
    if outcome == "done" and go_now:
        # every thread has returned and the flag is true.  A callback whose then() returned and that nobody tried to remove
        # has run (by go(), or at once if it came late) ...
        targeted = set(k for k, _, _ in st["rm_calls"])
        for k in range(nk):
            if k in st["then_ret"] and k not in targeted and st["ran"].get(k, 0) == 0:
                viol.append("C02: callback %d was registered (then() returned), never removed, the signal is true and every call "
                            "has returned, but the callback never ran" % k)
    first_go = min(st["go_calls"]) if st["go_calls"] else None
    for k, c0, c1 in st["rm_calls"]:
        # ... and one removed (remove_then returned) before any go() was called, after its then() had returned, never runs
        if k in st["then_ret"] and c1 is not None and st["then_ret"][k] <= c0 and (first_go is None or c1 <= first_go) \
                and st["ran"].get(k, 0) > 0:
            viol.append("C02: callback %d was removed (remove_then returned) before go() was called, but it ran" % k)
    if outcome == "stuck" and go_now:
        viol.append("C01: flag is true but threads %s never returned (lost wake-up / deadlock)" % stuck)
    if outcome == "stuck" and not go_now and st["go_returned"]:
        viol.append("C01: go() returned but the flag is false")
    for vt in sched.vts:
        if vt.exc is not None:
            viol.append("unexpected exception in %s: %r" % (vt.name, vt.exc))
    return {"lines": lines, "outcome": outcome, "monitor": viol, "choices": list(sched.choices),
            "steps": sched.steps, "switches": sched.context_switches, "stuck": stuck,
            "ran": dict(st["ran"]), "errs": dict(st["errs"]), "go": go_now, "nk": nk,
            "cand_counts": list(sched.cand_counts)}


# ------------------------------------------------------------------------------------------------------------------------------
# hostile programs (monitors only; the lock-step model knows none of this): callbacks that raise, error handlers that raise
# again, callbacks that call back into the signal they hang on, wait(till=...) with signals and with things that are not signals
# ------------------------------------------------------------------------------------------------------------------------------
TILL_KINDS = ["T0", "T0", "T1", "False", "None", "Null"]


def gen_hostile(rng):
    n = rng.randint(2, 5)
    threads = []
    for _ in range(n):
        ops = []
        for _ in range(rng.randint(1, 3)):
            r = rng.random()
            if r < 0.2:
                ops.append(["wait"])
            elif r < 0.4:
                ops.append(["wait_till", rng.choice(TILL_KINDS)])
            elif r < 0.6:
                ops.append(["go"])
            elif r < 0.65:
                ops.append(["bool"])
            else:
                raises = rng.random() < 0.4
                ops.append(["then", {"raises": raises, "hraises": raises and rng.random() < 0.35,
                                     "nested": rng.choice([None, None, "then", "bool", "go", "remove"])}])
        threads.append(ops)
    if not any(o[0] == "go" for t in threads for o in t) and rng.random() < 0.8:
        threads[rng.randrange(n)].append(["go"])
    fire = [x for x in ("T0", "T1") if rng.random() < 0.5]
    return {"hostile": True, "never": False, "threads": threads, "fire": fire, "raises": []}


def shape_hostile(sc):
    def f(o):
        if o[0] == "then":
            return "T" + ("!" if o[1]["raises"] else "") + ("!!" if o[1]["hraises"] else "") + ({"then": "t", "bool": "b", "go": "g", "remove": "r"}.get(o[1]["nested"]) or "")
        if o[0] == "wait_till":
            return "w[" + o[1] + "]"
        return {"wait": "w", "go": "g", "bool": "b"}[o[0]]
    return "hostile:" + "/".join("".join(f(o) for o in t) for t in sc["threads"]) + ":" + "".join(sc["fire"])


class HandlerRaises(Exception):
    pass


def run_hostile(sc, chooser=None, seed=0, max_steps=6000):
    ds.install()
    ds.reset_globals()
    from mo_threads import signals
    from mo_dots import Null
    sched = ds.Sched(chooser=chooser, seed=seed, max_steps=max_steps)
    sig = signals.Signal("S")
    sig.lock = ds.SchedLock()
    sched.trace(sig, "S")
    sched.tag(sig.lock, "L")
    tills = {"T0": signals.Signal("T0"), "T1": signals.Signal("T1"), "False": False, "None": None, "Null": Null}
    st = {"ran": {}, "errs": {}, "reg": [], "cur": {}, "viol": [], "nextk": 0, "go_raised": 0, "hraise_ran": False}
    any_hraises = any(o[0] == "then" and o[1]["hraises"] for t in sc["threads"] for o in t)

    def flag():
        return bool(ds.raw(sig, "_go"))

    def make(spec, nested_child=False):
        k = st["nextk"]
        st["nextk"] += 1

        def cb():
            sched.yield_point(("cb", k))
            st["ran"][k] = st["ran"].get(k, 0) + 1
            if not flag():
                st["viol"].append("C02: callback %d ran while the signal read false" % k)
            nd = spec.get("nested")
            if nd == "then":
                k2, cb2, err2 = make({"raises": False, "hraises": False, "nested": None}, True)
                sig.then(cb2, err2)          # the signal is true: this one runs at once, on this thread
                st["reg"].append(k2)
            elif nd == "bool":
                if not bool(sig):
                    st["viol"].append("C01: a callback of the signal read it false")
            elif nd == "go":
                sig.go()
            elif nd == "remove":
                sig.remove_then(cb)
            if spec.get("raises"):
                raise ValueError("callback %d raises" % k)

        def err(cause):
            sched.yield_point(("err", k))
            st["errs"][k] = st["errs"].get(k, 0) + 1
            if spec.get("hraises"):
                st["hraise_ran"] = True
                raise HandlerRaises("handler of callback %d raises" % k)
        return k, cb, err

    def body(ti, ops):
        def run():
            for op in ops:
                st["cur"][ti] = op
                if op[0] == "wait":
                    sig.wait()
                    if not flag():
                        st["viol"].append("C01: wait() returned on thread %d while the flag is false" % ti)
                elif op[0] == "wait_till":
                    tl = tills[op[1]]
                    sig.wait(till=tl)
                    fired = isinstance(tl, signals.Signal) and bool(ds.raw(tl, "_go"))
                    if not flag() and not fired:
                        st["viol"].append("C01: wait(till=%s) returned on thread %d although neither the signal nor the till is true" % (op[1], ti))
                elif op[0] == "go":
                    try:
                        sig.go()
                    except HandlerRaises:
                        st["go_raised"] += 1
                    if not flag():
                        st["viol"].append("C01: go() returned with the flag false")
                elif op[0] == "bool":
                    bool(sig)
                elif op[0] == "then":
                    k, cb, err = make(op[1])
                    try:
                        sig.then(cb, err)
                    except HandlerRaises:
                        st["go_raised"] += 1
                    st["reg"].append(k)
                st["cur"][ti] = None
        return run

    for ti, ops in enumerate(sc["threads"]):
        sched.spawn("t%d" % ti, body(ti, ops))

    def env():
        for x in sc["fire"]:
            tills[x].go()
    if sc["fire"]:
        sched.spawn("env", env)
    outcome = sched.run()
    stuck = sorted(int(vt.name[1:]) for vt in sched.stuck if vt.name != "env")
    viol = st["viol"]
    go_now = flag()
    for ti in stuck:
        op = st["cur"].get(ti)
        if op is None:
            continue
        if op[0] == "wait" and go_now:
            viol.append("C01: flag is true but thread %d never returned from wait() (lost wake-up)" % ti)
            if st["errs"]:
                viol.append("C02: a callback raised and thread %d, parked in wait(), was not released" % ti)
        elif op[0] == "wait_till":
            tl = tills[op[1]]
            fired = isinstance(tl, signals.Signal) and bool(ds.raw(tl, "_go"))
            if st["hraise_ran"] and isinstance(tl, signals.Signal):
                # an error handler raised again: go() passes that on to its caller and drops the callbacks that come after,
                # the triggers behind wait(till=<signal>) among them.  That is what the code as it stands does (the library
                # registers such a handler itself, threads.py raise_from_none); neither C01 nor C02 quantifies over handlers
                # that raise, so it is not judged here (DESIGN §10)
                continue
            if go_now or fired:
                viol.append("C01: thread %d never returned from wait(till=%s) although %s is true" % (ti, op[1], "the signal" if go_now else "the till"))
                if st["errs"] and go_now:
                    viol.append("C02: a callback raised and thread %d, waiting with a till, was not released" % ti)
        elif op[0] in ("then", "go", "bool"):
            viol.append("C02: thread %d never returned from %s() (a callback calling back into its own signal?)" % (ti, op[0]))
            viol.append("C01: thread %d never returned from %s()" % (ti, op[0]))
    for k, n in st["ran"].items():
        if n > 1:
            viol.append("C02: callback %d ran %d times" % (k, n))
    if outcome == "done" and go_now and not any_hraises:
        for k in st["reg"]:
            if st["ran"].get(k, 0) == 0:
                viol.append("C02: callback %d was registered, the signal is true and every call has returned, but the callback never ran "
                            "(%d callbacks raised, all into handlers that returned)" % (k, len(st["errs"])))
    for vt in sched.vts:
        if vt.exc is not None:
            viol.append("unexpected exception in %s: %r" % (vt.name, vt.exc))
    return {"lines": [], "outcome": outcome, "monitor": viol, "choices": list(sched.choices), "steps": sched.steps,
            "switches": sched.context_switches, "stuck": stuck, "cand_counts": list(sched.cand_counts)}
