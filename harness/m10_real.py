"""
C19, real round trips: the REAL mo_threads.python.Python proxy talking to the REAL python_worker.py in a child
process (wall clock, OS scheduling).  Run as a separate process (the scheduler harness patches mo_threads):

    PYTHONPATH=/repo:/verif python -m harness.m10_real <seed> <ncalls>

Prints one JSON object: {"cases": n, "viol": [...], "known": [...], "kinds": {...}}.
"""
import json
import random
import sys
import threading
import time

SCRIPT = (
    "def ident(x):\n    return x\n"
    "def boom(x):\n    raise Exception('remote failure %s' % (x,))\n"
    "def kw(a=1, b=2):\n    return [a, b]\n"
    "def chatty(x):\n    from mo_logs import logger\n    logger.info('hello {x}', x=1)\n    return x\n"
    # a backlog of log lines for the worker's logging thread, then an answer much longer than the pipe buffer: the answer's write
    # sleeps in the kernel while the logging thread writes to the same pipe
    "def noisy(n, lines):\n    import time\n    from mo_logs import logger\n    logger.info('first line')\n    time.sleep(0.05)\n"
    "    for i in range(lines):\n        logger.info('backlog line {i}', i=i)\n    time.sleep(0.26)\n    return 'x' * n\n"
)

FALSY = [0, False, None, [], {}, 0.5, "", [None], [[]], [{}], {"a": []}, {"a": 0}, {"a": False}]


def gen_value(rng, depth=0):
    r = rng.random()
    if r < 0.3:
        return rng.choice(FALSY)
    if r < 0.45:
        return rng.randint(-5, 1 << rng.choice([3, 31, 70]))
    if r < 0.55:
        return rng.choice([True, False, None])
    if r < 0.7:
        return "".join(rng.choice("ab '\"\\\n\té{}[]:,") for _ in range(rng.randint(0, 6)))
    if r < 0.78:
        return rng.randint(-40, 40) / 8.0 + 0.0625
    if depth >= 2:
        return rng.randint(0, 3)
    if r < 0.9:
        return [gen_value(rng, depth + 1) for _ in range(rng.randint(0, 3))]
    return {rng.choice("abc"): gen_value(rng, depth + 1) for _ in range(rng.randint(0, 3))}


def norm(v):
    """what mo_json (a dependency, outside this repository) does to a value on the wire: empty and whitespace-only
    strings are null, and members whose value is null are dropped"""
    if isinstance(v, str) and v.strip() == "":
        return None
    if isinstance(v, list):
        return [norm(x) for x in v]
    if isinstance(v, dict):
        out = {}
        for k, x in v.items():
            n = norm(x)
            if n is not None:
                out[k] = n
        return out
    return v


def norm_big(v):
    """mo_json reads integers beyond 2**53 through a float"""
    if isinstance(v, int) and not isinstance(v, bool) and abs(v) > (1 << 53):
        return int(float(v))
    if isinstance(v, list):
        return [norm_big(x) for x in v]
    if isinstance(v, dict):
        return {k: norm_big(x) for k, x in v.items()}
    return v


def same(a, b):
    if type(a) is not type(b):
        return False
    if isinstance(a, list):
        return len(a) == len(b) and all(same(x, y) for x, y in zip(a, b))
    if isinstance(a, dict):
        return set(a) == set(b) and all(same(a[k], b[k]) for k in a)
    return a == b


def main(seed, ncalls):
    from mo_threads import start_main_thread, stop_main_thread
    from mo_threads.python import Python
    from mo_dots import from_data
    import mo_logs
    rng = random.Random(seed)
    out = {"cases": 0, "viol": [], "known": [], "kinds": {}}
    start_main_thread()
    p = Python("c19-%d" % seed, {})
    import os
    if os.environ.get("M10_TAP"):
        orig = p.process.stdout.pop

        def pop(*a, **k):
            r = orig(*a, **k)
            sys.stderr.write("LINE %r\n" % (r,))
            return r
        p.process.stdout.pop = pop
    p.execute_script(SCRIPT)

    def bump(k):
        out["kinds"][k] = out["kinds"].get(k, 0) + 1

    def judge(what, v, r):
        out["cases"] += 1
        if same(r, v):
            return
        if same(r, norm(v)):
            out["known"].append({"signature": "C19/mo-json-empty-string-and-null-members",
                                 "msg": "%s %r came back as %r (mo_json writes empty and whitespace-only strings as null and drops null members)" % (what, v, r)})
            return
        if same(r, norm_big(norm(v))):
            out["known"].append({"signature": "C19/mo-json-integers-beyond-2^53",
                                 "msg": "%s %r came back as %r (mo_json reads integers beyond 2**53 through a float)" % (what, v, r)})
            return
        out["viol"].append("C19: %s %r came back as %r" % (what, v, r))

    def with_deadline(fn, what, secs=20):
        box = {}

        def run():
            try:
                box["r"] = fn()
            except BaseException as e:   # noqa
                box["e"] = e
        t = threading.Thread(target=run, daemon=True)
        t.start()
        t.join(secs)
        if t.is_alive():
            out["viol"].append("C19: %s did not return within %ds although the worker is alive" % (what, secs))
            raise SystemExit(0)
        if "e" in box:
            raise box["e"]
        return box["r"]

    try:
        for k in range(2):
            n = 1500000 + k
            bump("noisy")
            out["cases"] += 1
            try:
                r = with_deadline(lambda: p.noisy(n, 1500), "noisy(%d, 1500): a 1.5 MB answer while the worker's logging thread flushes 1500 lines" % n, 30)
                if not (isinstance(r, str) and r == "x" * n):
                    out["viol"].append("C19: noisy(%d, 1500) returned %s of length %s instead of %d times 'x'"
                                       % (n, type(r).__name__, len(r) if isinstance(r, str) else "-", n))
            except SystemExit:
                raise
            except Exception as e:   # noqa
                out["viol"].append("C19: noisy(%d, 1500) raised: %s" % (n, str(e).replace("\n", " ")[-200:]))
        for i in range(ncalls):
            v = gen_value(rng)
            kind = rng.choice(["ident", "ident", "setget", "kw", "boom", "chatty", "execget"])
            bump(kind)
            try:
                if kind == "ident":
                    judge("ident(%r): result" % (v,), v, from_data(with_deadline(lambda: p.ident(v), "ident(%r)" % (v,))))
                elif kind == "chatty":
                    judge("chatty(%r): result" % (v,), v, from_data(with_deadline(lambda: p.chatty(v), "chatty(%r)" % (v,))))
                elif kind == "kw":
                    w = gen_value(rng)
                    judge("kw(a=%r, b=%r): result" % (v, w), [v, w], from_data(with_deadline(lambda: p.kw(a=v, b=w), "kw")))
                elif kind == "execget":
                    # a variable assigned by a remote script, then read back (and one that shadows an earlier set())
                    name = "e%d" % i
                    if rng.random() < 0.5:
                        with_deadline(lambda: p.set(name, 7), "set")
                    with_deadline(lambda: p.execute_script("%s = %r" % (name, v)), "execute_script")
                    judge("execute_script(%s = %r); get: result" % (name, v), v, from_data(with_deadline(lambda: p.get(name), "get")))
                elif kind == "setget":
                    name = "v%d" % i
                    with_deadline(lambda: p.set(name, v), "set(%r)" % (v,))
                    judge("set/get %r: result" % (v,), v, from_data(with_deadline(lambda: p.get(name), "get")))
                else:
                    out["cases"] += 1
                    try:
                        r = with_deadline(lambda: p.boom(i), "boom")
                        out["viol"].append("C19: a remote exception was returned as the value %r" % (r,))
                    except SystemExit:
                        raise
                    except Exception as e:   # noqa
                        if ("remote failure %d" % i) not in str(e):
                            out["viol"].append("C19: remote exception not reported faithfully: %s" % str(e)[-160:])
            except SystemExit:
                raise
            except Exception as e:   # noqa
                if kind != "boom":
                    out["viol"].append("C19: %s with %r raised: %s" % (kind, v, str(e).replace("\n", " ")[-200:]))
        # concurrent callers: each must get the answer to its own request
        res = {}
        errs = []

        def caller(ti):
            for j in range(6):
                v = [ti, j, rng.choice(FALSY[:6])]
                try:
                    res[(ti, j)] = (v, from_data(p.ident(v)) if j % 3 else from_data(p.chatty(v)))
                except Exception as e:   # noqa
                    errs.append("C19: concurrent call %r raised %s" % (v, str(e).replace("\n", " ")[-160:]))
        ths = [threading.Thread(target=caller, args=(ti,), daemon=True) for ti in range(4)]
        for t in ths:
            t.start()
        deadline = time.time() + 40
        for t in ths:
            t.join(max(0.1, deadline - time.time()))
        if any(t.is_alive() for t in ths):
            out["viol"].append("C19: concurrent callers blocked: %d of 24 calls returned" % len(res))
        out["viol"].extend(errs)
        bump("concurrent")
        for (ti, j), (v, r) in sorted(res.items()):
            judge("concurrent ident by thread %d: result" % ti, v, r)
    except SystemExit:
        pass
    finally:
        try:
            with_deadline(lambda: p.stop(), "stop()", 15)
            with_deadline(lambda: p.join(), "join()", 15)
        except BaseException:   # noqa
            pass
    print("M10REAL " + json.dumps(out, default=str))
    sys.stdout.flush()
    try:
        stop_main_thread()
    except BaseException:   # noqa
        pass


if __name__ == "__main__":
    main(int(sys.argv[1]), int(sys.argv[2]))
