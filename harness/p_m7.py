"""C16 plugin: M7 trace acceptance + monitors on the real ThreadedQueue worker."""
from . import plug

RULE = {
    "C16": "scenario = 0-8 values spread over 1-3 producer threads (optional pauses on the virtual clock), batch size in {1,2,3,5}, "
           "period in {0.05,0.1,0.25,1.0}s, optional max_size, a finite failure pattern (<=5 attempts) for the slow queue's "
           "extend(), stop() or context exit; real ThreadedQueue/worker_bee/Thread/Till under the deterministic scheduler; "
           "non-trivial = >=1 pre-emption; distinct = (scenario, schedule) hash",
}


class M7(plug.Model):
    name = "m7"
    mode = "TA (trace acceptance, thread-local steps skipped)"

    def run(self, sc, chooser, seed):
        from . import m7_tqueue
        return m7_tqueue.run_scenario(sc, chooser=chooser, seed=seed)

    def shape(self, sc):
        from . import m7_tqueue
        return m7_tqueue.shape(sc)

    def header(self, sc):
        return "batch=%d fails=%s" % (sc["batch"], ",".join("1" if f else "0" for f in sc["fails"]))

    def est_steps(self, sc):
        return 800


MODEL = M7()


def gen(rng, prop, job):
    from . import m7_tqueue
    if job.get("objects"):
        return m7_tqueue.gen_objects(rng)
    return m7_tqueue.gen_scenario(rng)


def make_jobs(prop, tier, seed):
    jobs = plug.std_jobs(prop, tier, seed, "m7", n_quick=16, per_quick=5, schedules=4)
    jobs.extend(plug.line_jobs(prop, tier, seed))
    for j in range(2 if tier == "quick" else 12):
        jobs.append({"kind": "explore", "objects": True, "no_driver": True, "prop": prop, "seed": seed * 8191 + j, "scenarios": 6, "schedules": 3})
    if tier == "thorough":
        for j in range(24):
            jobs.append({"kind": "pbound", "prop": prop, "seed": seed * 104729 + j, "k": 2, "budget": 1200})
    else:
        jobs.append({"kind": "pbound", "prop": prop, "seed": seed * 104729, "k": 1, "budget": 100})
    return jobs


def search_jobs(prop, tier, seed, corr_fail):
    return plug.std_search_jobs(prop, tier, seed, corr_fail)


def run_job(job):
    if job["kind"] == "pbound":
        return plug.pbound_job(MODEL, plug.smallest_of(gen), job)
    return plug.std_job(MODEL, gen, job)


def trusted_base(prop):
    return [
        "Lean 4.33 kernel; axioms of every theorem audited to be within {propext, Classical.choice, Quot.sound}",
        "statements in lean/MoThreads/Props/C16.lean",
        "hand-written model lean/MoThreads/Model/TQWorker.lean, tied to ThreadedQueue.worker_bee in /repo/mo_threads/queues.py by trace "
        "acceptance of real executions (harness/m7_tqueue.py): loop tests of please_stop, every pop result, every timer renewal, "
        "every slow-queue call with its batch and outcome, the marker re-queue, the please_stop trigger, the final marker",
        "a failed extend() delivers nothing (the scripted sink raises before accepting); partial deliveries are outside the model",
        "modelled, not verified: Queue/Lock/Signal/Till are the real ones (C01-C09, C13); exception propagation inside worker_bee",
    ]


def assumptions(prop):
    return ["the failure pattern of the slow queue is finite", "clean stop()/context exit; `with` leaving on an exception is the documented abort path"]


for _k in list(RULE):      # RULE-EXTRA: what was added to the exploration after the rounds of seeded changes
    RULE[_k] += '; plus: the queue made by a thread that ends at once; monitor-only jobs with values of every kind (classes, partials, callable objects, strings) and post-push functions that raise once; line-mode jobs'
