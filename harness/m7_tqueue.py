"""
M7 correspondence + monitors for C16: the REAL mo_threads.queues.ThreadedQueue (its worker_bee running as a real
mo_threads.Thread, real Queue/Lock/Signal/Till underneath, real timer daemon on a virtual clock) against
Model/TQWorker.lean.  The slow queue is a scripted sink whose extend() fails according to a finite pattern.
"""
import sys
from collections import deque

from . import detsched as ds

MARK = "please_stop"


def gen_scenario(rng):
    nvals = rng.randint(0, 8)
    batch = rng.choice([1, 2, 3, 5])
    period = rng.choice([0.05, 0.1, 0.25, 1.0])
    producers = rng.randint(1, 3)
    vals = list(range(0, nvals))          # 0 is a value like any other (a worker that tests `if item:` would drop it)
    split = [[] for _ in range(producers)]
    for v in vals:
        split[rng.randrange(producers)].append(v)
    fails = [rng.random() < 0.35 for _ in range(rng.randint(0, 5))]
    # optionally force a failure exactly on the final flush (the last attempt before the marker)
    pauses = [[rng.choice([0, 0, 0, 0.03, 0.12, 0.3]) for _ in p] for p in split]
    return {"batch": batch, "period": period, "producers": split, "pauses": pauses, "fails": fails,
            "max_size": rng.choice([None, None, 4, 20]), "exit_mode": rng.choice(["stop", "stop", "with"]),
            # the queue is made by a thread that ends at once (a set-up helper): the worker must outlive its maker
            "ctor": rng.random() < 0.25}


def gen_objects(rng):
    """C16 outside the model (monitors only): values of every kind — classes, partials, callable objects, strings, 0, "" — are
    values; only plain functions are post-push callbacks, which run after a batch went out and may raise (once)"""
    sc = gen_scenario(rng)
    sc["objects"] = True
    sc["ctor"] = False
    sc["ppf"] = []
    for pi, p in enumerate(sc["producers"]):
        for k in range(len(p) + 1):
            if rng.random() < 0.25:
                sc["ppf"].append([pi, k, rng.random() < 0.5])       # after the k-th value of producer pi; raises the first time?
    return sc


def shape(sc):
    return "b%d:p%s:%s:f%s:%s%s" % (sc["batch"], sc["period"], "/".join(str(len(p)) for p in sc["producers"]),
                                     "".join("x" if f else "." for f in sc["fails"]), sc["exit_mode"],
                                     (":ctor" if sc.get("ctor") else "") + (":obj%d" % len(sc.get("ppf", [])) if sc.get("objects") else ""))


class SinkFailure(Exception):
    pass


def run_scenario(sc, chooser=None, seed=0, max_steps=60000):
    ds.install()
    ds.reset_globals()
    from mo_threads import threads, till as tillmod, signals, queues
    sched = ds.Sched(chooser=chooser, seed=seed, max_steps=max_steps, horizon=8.0)
    st = {"viol": [], "batches": [], "attempts": [], "markers": 0, "fails": list(sc["fails"]), "timers": 0, "stop_returned": False,
          "added": []}

    class Sink(object):
        def extend(self, batch):
            batch = [unwrap(o) for o in batch]
            fail = st["fails"].pop(0) if st["fails"] else False
            sched.yield_point(("sink", "extend"))
            st["attempts"].append((batch, not fail))
            sched.emit("m7", "extend", batch, not fail)
            if fail:
                raise SinkFailure("sink refuses %r" % (batch,))
            st["batches"].append(batch)

        def add(self, v):
            sched.yield_point(("sink", "add"))
            v = unwrap(v)
            if v == MARK:
                st["markers"] += 1
                sched.emit("m7", "sinkmarker")
            else:
                st["batches"].append([v])
                sched.emit("m7", "extend", [v], True)

    RealTill = tillmod.Till

    def till_factory(*a, **k):
        t = RealTill(*a, **k)
        vt = sched.me()
        if vt is not None and sys._getframe(1).f_code.co_name == "worker_bee" and t is not signals.DONE:
            n = st["timers"]
            st["timers"] += 1
            sched.trace(t, "NP%d" % n)
            sched.emit("m7", "newtimer", n)
        return t
    old_till = queues.Till
    queues.Till = till_factory

    # the worker's `... or next_push` truth test is a visible step of the model (a timer may fire between the pop and the test)
    def till_bool(self):
        v = signals.Signal.__bool__(self)
        if sched.me() is not None and not sched.abort and sys._getframe(1).f_code.co_name == "worker_bee":
            sched.emit("m7", "ntest", bool(v))
        return v
    RealTill.__bool__ = till_bool

    RealSignal = signals.Signal

    class WorkerStop(RealSignal):
        """threads.py's Signal: the worker's `while not please_stop` test is logged"""
        __slots__ = ()

        def __bool__(self):
            v = ds.raw(self, "_go")
            if sys._getframe(1).f_code.co_name == "worker_bee":
                s = ds.CUR
                if s is not None and s.me() is not None:
                    s.yield_point(("Rps", self))
                    v = ds.raw(self, "_go")
                    s.emit("m7", "looptest", bool(v))
            return v
    old_tsignal = threads.Signal
    threads.Signal = WorkerStop

    orig_shim_start = ds.ShimThread.start

    def shim_start(self):
        if self.name == "timers daemon":
            self._verif_background = True
            self._verif_timekeeper = True
        return orig_shim_start(self)
    ds.ShimThread.start = shim_start

    class TD(deque):
        def append(self, v):
            deque.append(self, v)
            s = ds.CUR
            if s is not None and s.me() is not None:
                s.emit("m7", "add", v)

        def appendleft(self, v):
            deque.appendleft(self, v)
            s = ds.CUR
            if s is not None and s.me() is not None:
                s.emit("m7", "requeue", v)

    box = {}

    orig_pop = queues.Queue.pop

    def pop_wrapper(self, till=None):
        r = orig_pop(self, till=till)
        if not sched.abort and isinstance(self, queues.ThreadedQueue):
            sched.emit("m7", "popped", r)
        return r
    queues.ThreadedQueue.pop = pop_wrapper
    orig_qinit = queues.Queue.__init__

    def qinit(self, *a, **k):
        orig_qinit(self, *a, **k)
        if isinstance(self, queues.ThreadedQueue):
            self.queue = TD()
    queues.Queue.__init__ = qinit

    # values of every kind (monitor-only scenarios): v -> an object that stands for it
    objs = {}

    class CallableValue(object):
        def __init__(self, v):
            self.v = v

        def __call__(self, *a, **k):
            st["viol"].append("C16: the queue CALLED the value %r instead of handing it to the slow queue" % (self.v,))
            raise RuntimeError("values are not callbacks")

    def wrap(v):
        if not sc.get("objects"):
            return v
        import functools
        kind = v % 6
        if kind == 1:
            o = type("Value%d" % v, (object,), {"v": v, "__init__": lambda self, *a: st["viol"].append("C16: the queue instantiated a class that was added as a value")})
        elif kind == 2:
            o = functools.partial(lambda v=v: st["viol"].append("C16: the queue CALLED the partial that was added as value %d" % v))
        elif kind == 3:
            o = CallableValue(v)
        elif kind == 4:
            o = "s%d" % v
        else:
            o = v
        objs[v] = o
        return o

    def unwrap(o):
        for v, x in objs.items():
            if x is o:
                return v
        return o

    ppf_at = {}
    for pi_, k_, raises_ in sc.get("ppf", []):
        def make_ppf(pi_=pi_, k_=k_, raises_=raises_):
            calls = []

            def ppf():
                calls.append(1)
                st.setdefault("ppf_calls", {}).setdefault((pi_, k_), []).append(len(st["attempts"]))
                if raises_ and len(calls) == 1:
                    raise RuntimeError("post-push function raises (once)")
            return ppf
        ppf_at.setdefault((pi_, k_), []).append(make_ppf())

    def main_body():
        threads.start_main_thread()
        if sc.get("ctor"):
            def make(please_stop):
                box["tq"] = queues.ThreadedQueue("TQ", Sink(), batch_size=sc["batch"], max_size=sc["max_size"], period=sc["period"], silent=True)
            threads.Thread.run("maker", make).join()
            tq = box["tq"]
        else:
            tq = queues.ThreadedQueue("TQ", Sink(), batch_size=sc["batch"], max_size=sc["max_size"], period=sc["period"], silent=True)
        box["tq"] = tq
        sched.trace(tq.thread.please_stop, "WPS")
        prods = []
        for pi, (vals, pauses) in enumerate(zip(sc["producers"], sc["pauses"])):
            def prod(please_stop, vals=vals, pauses=pauses, pi=pi):
                for k, (v, p) in enumerate(zip(vals, pauses)):
                    for f in ppf_at.get((pi, k), []):
                        tq.add(f)
                    if p:
                        tillmod.Till(seconds=p).wait()
                    tq.add(wrap(v))
                for f in ppf_at.get((pi, len(vals)), []):
                    tq.add(f)
            prods.append(threads.Thread.run("prod%d" % pi, prod))
        for p in prods:
            p.join()
        sched.note("stop", "called")
        if sc["exit_mode"] == "with":
            with tq:
                pass
        else:
            tq.stop()
        st["stop_returned"] = True
        sched.note("stop", "returned")
        try:
            threads.MAIN_THREAD.stop()
        except ds.SchedAbort:
            raise
        except BaseException:   # noqa
            pass

    sched.spawn("main", main_body)
    ds._shim_main.name = "MainThread"
    try:
        outcome = sched.run()
    finally:
        queues.Till = old_till
        try:
            del RealTill.__bool__
        except Exception:
            pass
        queues.Queue.__init__ = orig_qinit
        try:
            del queues.ThreadedQueue.pop
        except Exception:
            pass
        threads.Signal = old_tsignal
        ds.ShimThread.start = orig_shim_start
    lines = to_lines(sched.events, sc)
    lines.append("end %s" % outcome)
    viol = st["viol"]
    added = [v for p in sc["producers"] for v in p]
    delivered = [v for b in st["batches"] for v in b]
    if outcome in ("done", "stuck"):
        if sorted(delivered) != sorted(added) and st["stop_returned"]:
            lost = sorted(set(added) - set(delivered))
            dup = sorted(v for v in set(delivered) if delivered.count(v) > 1)
            viol.append("C16: delivered %s, added %s (lost %s, duplicated %s)" % (delivered, added, lost, dup))
        for p in sc["producers"]:
            pos = [delivered.index(v) for v in p if v in delivered]
            if pos != sorted(pos):
                viol.append("C16: values of one producer %s were delivered out of order: %s" % (p, delivered))
        if st["stop_returned"] and st["markers"] != 1:
            viol.append("C16: %d stop markers were handed to the slow queue, expected exactly 1" % st["markers"])
        # only a batch whose delivery raised may repeat
        okb = [tuple(b) for b, ok in st["attempts"] if ok]
        if len(set(v for b in okb for v in b)) != len([v for b in okb for v in b]):
            viol.append("C16: a value was accepted twice by the slow queue: %s" % (okb,))
    # a run cut at the step bound is an unfair schedule (e.g. two blocked producers waking each other, the open C20 finding,
    # while a priority scheduler never runs the worker): it says nothing about termination
    if not st["stop_returned"] and outcome != "bound":
        viol.append("C16: stop() did not return (failure pattern %s, %d attempts, %d markers)" % (sc["fails"], len(st["attempts"]), st["markers"]))
    for vt in sched.vts:
        if vt.exc is not None and not isinstance(vt.exc, SinkFailure):
            viol.append("unexpected exception in %s: %r" % (vt.name, vt.exc))
    return {"lines": lines, "outcome": outcome, "monitor": sorted(set(viol)), "choices": list(sched.choices), "cand_counts": list(sched.cand_counts), "steps": sched.steps,
            "switches": sched.context_switches, "stuck": [vt.name for vt in sched.stuck]}


def to_lines(events, sc):
    lines = []

    def item(v):
        if v is None:
            return "None"
        if v == MARK:
            return "M"
        return str(v)
    for ev in events:
        if ev[0] == "-":
            if ev[1] == "note":
                lines.append(" ".join(str(w) for w in ev[2:]))
            continue
        who = ev[0]
        worker = who.startswith("threaded queue")
        if ev[1] == "m7":
            k = ev[2]
            if k == "add":
                lines.append("add %s" % item(ev[3]))
            elif k == "requeue":
                lines.append("step requeue")
            elif k == "popped" and worker:
                lines.append("step popped %s" % item(ev[3]))
            elif k == "extend" and worker:
                lines.append("step extend [%s] %s" % (",".join(str(x) for x in ev[3]), "ok" if ev[4] else "fail"))
            elif k == "sinkmarker" and worker:
                lines.append("step sinkmarker")
            elif k == "newtimer" and worker:
                lines.append("step newtimer %d" % ev[3])
            elif k == "looptest" and worker:
                lines.append("step looptest %s" % ("True" if ev[3] else "False"))
            elif k == "ntest" and worker:
                lines.append("step ntest %s" % ("True" if ev[3] else "False"))
        elif ev[1] == "W" and ev[3] == "_go":
            tag = ev[2]
            if tag == "WPS":
                lines.append(("step pstop" if worker else "env pstop"))
            elif isinstance(tag, str) and tag.startswith("NP"):
                lines.append("env timer %s" % tag[2:])
    return lines
