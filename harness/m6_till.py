"""
M6 correspondence + monitors for C13/C14: the REAL till.daemon and Till() under the deterministic
scheduler on a virtual clock, against Model/Till.lean.  Clock unit: 1/1024 s; till.INTERVAL is patched to
0.125 s (=128 ticks) so every float in till.py is exact; the real value 0.1 is asserted before patching.
"""
import os
import sys
import weakref

from . import detsched as ds

TICK = 1024.0
I_TICKS = 128


def gen_scenario(rng, prop="C13"):
    """creators: list of threads; each op = ["till", at_ticks, secs_ticks] (wait until clock>=at, then Till(seconds=secs))
       followed optionally by ["wait"] on it.  stop_at: when the daemon is asked to stop (None = never within horizon)"""
    n = rng.randint(1, 4)
    threads = []
    for _ in range(n):
        ops = []
        at = 0
        for _ in range(rng.randint(1, 3)):
            at += rng.choice([0, 0, 1, 17, 64, 100, 128, 130, 200, 256, 300])
            secs = rng.choice([-5, 0, 1, 5, 64, 100, 127, 128, 129, 200, 256, 300, 500])
            # a quarter of the timers are made with an absolute deadline, Till(till=now + secs), also in the past
            ops.append(["tilla" if rng.random() < 0.25 else "till", at, secs])
            if rng.random() < (0.8 if prop == "C14" else 0.4):
                ops.append(["wait"])
        threads.append(ops)
    stop_at = None
    if prop == "C14" or rng.random() < 0.3:
        stop_at = rng.choice([0, 1, 50, 128, 129, 200, 260, 400, 700])
    return {"threads": threads, "stop_at": stop_at}


def gen_crash(rng, allow_crash=True):
    """C13 / C14 outside the model (monitors only):
    * the daemon does not stop because it was asked to, it dies — an absolute deadline that its arithmetic cannot handle
      (`Till(till=-(10**400))`: int minus float overflows inside the loop).  Every outstanding Till must still become true, and
      so must every Till made afterwards;
    * Tills whose last reference is dropped while they are pending (the daemon holds them weakly): the others stay on time;
    * a Till that never comes due by itself (`seconds=inf`): shutdown makes it true like any other."""
    sc = gen_scenario(rng, "C14")
    kinds = [k for k in ("crash", "drop", "inf") if rng.random() < 0.45 and (allow_crash or k != "crash")] or ["drop"]
    if "crash" in kinds:
        sc["stop_at"] = None
        k = rng.randrange(len(sc["threads"]))
        ops = sc["threads"][k]
        pos = rng.randint(0, len(ops))
        while pos < len(ops) and ops[pos][0] == "wait":      # keep a `wait` attached to the Till made before it
            pos += 1
        ops.insert(pos, ["crash", rng.choice([0, 1, 60, 130, 200, 300])])
    if "drop" in kinds:
        # a thread that makes far-away Tills, lets go of one in the middle, then makes a near one and waits for it
        at = rng.choice([10, 10, 130])
        # (the one that is let go has been sorted into the daemon's list by then: a scan later)
        ops = [["till", at, rng.choice([400, 520])], ["till", at, rng.choice([640, 700])], ["till", at, rng.choice([800, 900])],
               ["drop", at + rng.choice([140, 200, 270]), 1],
               ["till", at + rng.choice([280, 300]), rng.choice([30, 64, 100])], ["wait"]]
        sc["threads"].append(ops)
        if sc["stop_at"] is not None and sc["stop_at"] < 700:
            sc["stop_at"] = None
    if "inf" in kinds:
        sc["threads"].append([["till_inf", rng.choice([0, 50, 200])]] + ([["wait"]] if rng.random() < 0.7 else []))
        if sc["stop_at"] is None and "crash" not in kinds:
            sc["stop_at"] = rng.choice([300, 700, 1100])
    sc["crash"] = True           # (the name of the side: monitors only, weak bookkeeping)
    return sc


def _ticks(x):
    try:
        return int(round(x * TICK))
    except (OverflowError, ValueError):
        return 0


def shape(sc):
    return ("crash:" if sc.get("crash") else "") + "/".join("".join(({"till": "T", "tilla": "A", "crash": "X", "drop": "d", "till_inf": "I"}.get(o[0], "w")) for o in t) for t in sc["threads"]) + (":S%s" % sc["stop_at"] if sc["stop_at"] is not None else "")


def run_scenario(sc, chooser=None, seed=0, max_steps=8000, horizon_ticks=1400):
    ds.install()
    ds.reset_globals()
    from mo_threads import till as tillmod, signals
    assert tillmod.INTERVAL in (0.1, 0.125), tillmod.INTERVAL
    st = {"interval_ok": tillmod.INTERVAL == 0.1 or getattr(tillmod, "_verif_patched", False), "nextid": 0, "pending_id": {},
          "fire_time": {}, "deadline": {}, "reg_time": {}, "viol": [], "created": {}, "returned_done": []}
    tillmod._verif_patched = True
    tillmod.INTERVAL = I_TICKS / TICK
    sched = ds.Sched(chooser=chooser, seed=seed, max_steps=max_steps, horizon=horizon_ticks / TICK)
    RealSignal = signals.Signal

    class ENSignal(RealSignal):
        """till.py's `Signal` name: `enabled = Signal()` yields a traced signal; `Signal.__init__(till, ...)` still works"""
        __slots__ = ()

        def __init__(self, name=None):
            signals.Signal.__init__(self, name)
            if not isinstance(self, tillmod.Till):
                sched.trace(self, "EN")

    signal_factory = ENSignal
    old_factory = tillmod.Signal
    tillmod.Signal = ENSignal

    def vtime():
        now = sched.vtime()
        vt = sched.me()
        if vt is not None:
            caller = sys._getframe(1).f_code.co_name
            if caller == "__init__":
                st["pending_id"][vt.name] = st["nextid"]
                st["nextid"] += 1
            sched.emit("clock", int(round(now * TICK)))
        return now

    def vsleep(d):
        vt = sched.me()
        if vt is None:
            return
        wake = sched.clock + max(d, 0)
        sched.emit("sleep", int(round(wake * TICK)))
        sched.yield_point(("sleep", wake))
        sched.emit("wake")

    tillmod.time = vtime
    tillmod.sleep = vsleep

    class TillLock(ds.SchedLock):
        __slots__ = ()

        def release(self):
            s = self._sched()
            if s is not None:
                s.yield_point(("rel", self))
            if not self.held:
                raise RuntimeError("release unlocked lock")
            self.held = False
            self.owner = None
            if s is not None:
                s.emit("rel", "TL", _ticks(tillmod.Till.next_ping), len(tillmod.Till.new_timers))
                if not s.abort:
                    s.yield_point(("after-rel",))     # a pre-emption point right after the release (before the thread's next statement)

    # the daemon's unlocked `Till.next_ping = min(Till.next_ping, sorted_timers[0].timestamp)`: the attribute access on the
    # TodoItem sits between the read and the write, so it is where the read is logged, the thread can be pre-empted, and the
    # write is logged (its value is filled in when the thread reaches its next yield point: nothing else runs in between).
    # Creating a TodoItem is a pre-emption point too (between loading Till.new_timers and appending to it).
    OrigTodo = tillmod.TodoItem
    st["pending_wping"] = None

    class TodoItem(OrigTodo):
        __slots__ = ()

        def __new__(cls, timestamp, ref):
            s = ds.CUR
            if s is not None and s.me() is not None and not s.abort:
                s.yield_point(("todo",))
            return OrigTodo.__new__(cls, timestamp, ref)

        @property
        def timestamp(self):
            s = ds.CUR
            if s is not None and s.me() is not None and not s.abort and sys._getframe(1).f_code.co_name == "daemon":
                s.emit("rping", _ticks(tillmod.Till.next_ping))
                s.yield_point(("wping",))
                s.emit("wping", None)
                st["pending_wping"] = len(s.events) - 1
            return self[0]

    tillmod.TodoItem = TodoItem

    def fill_wping(s, vt):
        k = st["pending_wping"]
        if k is not None:
            ev = s.events[k]
            s.events[k] = ev[:2] + (_ticks(tillmod.Till.next_ping),)
            st["pending_wping"] = None
    sched.on_step = fill_wping

    tillmod.Till.locker = TillLock()
    sched.tag(tillmod.Till.locker, "TL")
    tillmod.Till.next_ping = 0.0
    tillmod.Till.new_timers = []

    orig_init = tillmod.Till.__init__

    def init_wrapper(self, till=None, seconds=None):
        vt = sched.me()
        try:
            return orig_init(self, till=till, seconds=seconds)
        finally:
            if vt is not None and vt.name in st["pending_id"]:
                pass

    # tag the Till object as soon as Signal.__init__ ran: patch Signal.__init__ lookups through a Till subclass hook
    orig_sig_init = signals.Signal.__init__

    def sig_init(self, name=None):
        orig_sig_init(self, name)
        if isinstance(self, tillmod.Till):
            vt = sched.me()
            if vt is not None and vt.name in st["pending_id"]:
                i = st["pending_id"].pop(vt.name)
                self.lock = ds.SchedLock()
                sched.trace(self, "L%d" % i, keep=not sc.get("crash"))
                st["created"][i] = self
                def rec(i=i):
                    st["fire_time"][i] = int(round(sched.clock * TICK))
                # not via then(): recording must not add callbacks; fire time is taken from the W _go event instead
    signals.Signal.__init__ = sig_init

    please_stop = RealSignal("PS")
    sched.trace(please_stop, "PS")
    tillmod.enabled = signal_factory("enabled")

    def daemon_body():
        try:
            tillmod.daemon(please_stop)
        except ds.SchedAbort:
            raise
        except Exception:
            if not sc.get("crash"):
                raise
            st["daemon_crashed"] = True     # the scenario makes it die: what matters is what its `finally` left behind
        st["daemon_returned"] = True        # not reached when the run is torn down under it
    dvt = sched.spawn("t0", daemon_body, background=True, timekeeper=True)

    def body(ti, ops):
        def run():
            last = None
            last_deadline = None
            keep = []
            keep_ids = []
            last_id = None
            for op in ops:
                if op[0] in ("till", "tilla"):
                    sched.until(op[1] / TICK)
                    now = int(round(sched.clock * TICK))
                    sched.note("call", ti, "till" if op[0] == "till" else "tillabs", op[2])
                    n_before = st["nextid"]
                    last_id = n_before
                    en_before = bool(ds.raw(tillmod.enabled, "_go"))      # timers are on (before and after the call: see below)
                    last_deadline = now + op[2]
                    if op[0] == "till":
                        t = tillmod.Till(seconds=op[2] / TICK)
                    else:
                        t = tillmod.Till(till=sched.clock + op[2] / TICK)
                    keep.append(t)
                    keep_ids.append(n_before)
                    if op[0] == "till" and op[2] <= 0 and not bool(ds.raw(t, "_go")):
                        st["viol"].append("C13: Till(seconds=%s) is not true immediately (non-positive seconds)" % (op[2] / TICK))
                    if (op[2] > 0 and int(round(sched.clock * TICK)) < last_deadline and en_before and bool(ds.raw(tillmod.enabled, "_go"))
                            and not ds.raw(please_stop, "_go") and (t is signals.DONE or bool(ds.raw(t, "_go")))):
                        st["viol"].append("C13: a Till made at tick %d with its deadline at tick %d is true at once, %d ticks early"
                                          % (now, last_deadline, last_deadline - int(round(sched.clock * TICK))))
                    if t is signals.DONE:
                        st["returned_done"].append((ti, op[2], now))
                        last = t
                    else:
                        last = t
                elif op[0] == "drop":
                    # let go of one of the Tills made by this thread (op[2]: which, counted from the first; default the last one),
                    # not before tick op[1]; the others stay referenced
                    if len(op) > 1:
                        sched.until(op[1] / TICK)
                    k = op[2] if len(op) > 2 and op[2] < len(keep) else len(keep) - 1
                    if keep:
                        keep.pop(k)
                        st["created"].pop(keep_ids.pop(k), None)      # the harness lets go of it too (nothing else holds it in this mode)
                    last = None
                    t = None
                elif op[0] == "till_inf":
                    sched.until(op[1] / TICK)
                    last_deadline = 10 ** 9
                    sched.note("call", ti, "till", 10 ** 7)      # (for the bookkeeping of the trace: a deadline beyond every horizon)
                    t = tillmod.Till(seconds=float("inf"))
                    last = t
                elif op[0] == "crash":
                    sched.until(op[1] / TICK)
                    try:
                        tillmod.Till(till=-(10 ** 400))
                    except ds.SchedAbort:
                        raise
                    except Exception:
                        pass
                elif op[0] == "wait" and last is not None:
                    sched.note("waiton", ti)
                    st.setdefault("waiting_on", {})[ti] = last_deadline
                    last.wait()
                    st["waiting_on"].pop(ti, None)
        return run

    for ti, ops in enumerate(sc["threads"], start=1):
        sched.spawn("t%d" % ti, body(ti, ops))

    def sentinel():
        sched.until(horizon_ticks / TICK)
    sched.spawn("hz", sentinel)

    if sc["stop_at"] is not None:
        def env():
            sched.until(sc["stop_at"] / TICK)
            please_stop.go()
        sched.spawn("env", env)
    # nobody starts before the daemon has enabled timers only in C13 runs; C14 explores start-up too
    sched.start_gate = None
    try:
        outcome = sched.run()
    finally:
        tillmod.Signal = old_factory
        tillmod.TodoItem = OrigTodo
        signals.Signal.__init__ = orig_sig_init
        tillmod.Till.locker = ds.SchedLock()
    stuck = sorted(int(vt.name[1:]) for vt in sched.stuck if vt.name.startswith("t") and vt.name != "t0")
    # a thread still waiting at the horizon on a Till that is not overdue (deadline within one interval of the end of the run, or
    # later) is simply waiting: creating that Till has returned, which is all the model knows about the thread
    end_tick = int(round(sched.clock * TICK))
    stuck = [t for t in stuck if not (st.get("waiting_on", {}).get(t) is not None and st["waiting_on"][t] + I_TICKS >= end_tick
                                      and not ds.raw(please_stop, "_go"))]
    lines, info = to_lines(sched.events)
    lines.append(" ".join(["end", outcome] + [str(t) for t in stuck]))
    fired = sorted(i for i, s in st["created"].items() if ds.raw(s, "_go"))
    lines.append("final fired=%s np=%d now=%d" % (",".join(str(i) for i in fired), _ticks(tillmod.Till.next_ping),
                                                  int(round(sched.clock * TICK))))
    viol = st["viol"]
    if not st["interval_ok"]:
        viol.append("C13: till.INTERVAL is not 0.1")
    daemon_done = bool(st.get("daemon_returned"))
    # ---- monitors ------------------------------------------------------------------------------------
    for i, (dl, reg, ftime, normal) in info["timers"].items():
        if ftime is not None and normal and ftime < dl:
            viol.append("C13: Till %d fired at tick %d before its deadline %d" % (i, ftime, dl))
        if ftime is not None and normal and reg is not None and ftime > max(dl, reg) + I_TICKS:
            viol.append("C13: Till %d (deadline %d, registered %d) fired at tick %d, more than one interval (%d) late" % (i, dl, reg, ftime, I_TICKS))
    end_clock = int(round(sched.clock * TICK))
    for i, (dl, reg, ftime, normal) in info["timers"].items():
        if sc.get("crash") and i not in st["created"]:
            continue            # nobody holds it any more: a Till that is garbage never fires, and nobody can tell
        if ftime is None and reg is not None and not info["stopped"] and end_clock > max(dl, reg) + I_TICKS:
            viol.append("C13: Till %d (deadline %d, registered %d) still not fired at tick %d" % (i, dl, reg, end_clock))
    for (ti, secs, now) in st["returned_done"]:
        pass
    if daemon_done or info["stopped"]:
        if outcome == "stuck" and stuck:
            viol.append("C14: threads %s are blocked on a Till forever although the timer daemon has shut down" % stuck)
        if daemon_done:
            for i, s in st["created"].items():
                if not ds.raw(s, "_go") and outcome in ("done", "stuck"):
                    viol.append("C14: Till %d was never triggered although the timer daemon finished its shutdown" % i)
    elif outcome == "stuck" and stuck:
        viol.append("C13: threads %s are still waiting on a Till at tick %d" % (stuck, end_clock))
    import traceback
    for vt in sched.vts:
        if vt.exc is not None:
            viol.append("unexpected exception in %s: %r %s" % (vt.name, vt.exc, "".join(traceback.format_tb(vt.exc.__traceback__)[-3:])))
    return {"lines": lines, "outcome": outcome, "monitor": sorted(set(viol)), "choices": list(sched.choices), "cand_counts": list(sched.cand_counts), "steps": sched.steps,
            "switches": sched.context_switches, "stuck": stuck}


def to_lines(events):
    lines = []
    timers = {}        # id -> [deadline, reg_time, fire_time, fired_by_normal_loop]
    clock = 0
    last_clock = {}    # thread -> last clock read (creation time)
    secs = {}
    stopped = False
    in_final = False
    for ev in events:
        if ev[0] == "-":
            if ev[1] == "tick":
                d = int(round(ev[2] * TICK)) - clock
                clock = int(round(ev[2] * TICK))
                if d > 0:
                    lines.append("env tick %d" % d)
            elif ev[1] == "note":
                ws = [str(w) for w in ev[2:]]
                if ws[0] == "call":
                    secs[ws[1]] = int(ws[3])
                    lines.append(" ".join(ws))
            continue
        who, kind = ev[0], ev[1]
        if who == "env":
            if kind == "W" and ev[2] == "PS" and ev[3] == "_go":
                lines.append("env stop")
                stopped = True
            continue
        t = who[1:]
        if kind == "clock":
            lines.append("step %s clock %d" % (t, ev[2]))
            last_clock[t] = ev[2]
        elif kind in ("acq", "rel"):
            if ev[2] == "TL":
                if kind == "acq":
                    lines.append("step %s acq" % t)
                else:
                    lines.append("step %s rel %d %d" % (t, ev[3], ev[4]))
        elif kind == "rping":
            lines.append("step %s rPing %d" % (t, ev[2]))
        elif kind == "wping":
            lines.append("step %s wPing %s" % (t, ev[2]))
        elif kind == "sleep":
            lines.append("step %s sleep %d" % (t, ev[2]))
        elif kind == "wake":
            lines.append("step %s wake" % t)
        elif kind in ("R", "W"):
            tag, slot = ev[2], ev[3]
            if slot != "_go":
                continue
            if tag == "EN":
                if kind == "W" and t == "0":
                    lines.append("step 0 enable")
                elif kind == "R" and t != "0":
                    lines.append("step %s cEnabled %s" % (t, "True" if ev[4] else "False"))
                    if ev[4] and t in last_clock and t in secs:
                        pass
            elif tag == "PS":
                if kind == "R" and t == "0":
                    lines.append("step 0 loopTest %s" % ("True" if ev[4] else "False"))
                    if ev[4]:
                        in_final = True
            elif tag.startswith("L") and kind == "W":
                i = int(tag[1:])
                lines.append("step %s fire %d" % (t, i))
                rec = timers.setdefault(i, [None, None, None, False])
                rec[2] = clock
                rec[3] = (t == "0" and not in_final)
        # registration info: a creator's `rel` after its clock read registers (deadline = clock + secs)
        if kind == "clock" and t != "0":
            i = len([1 for x in timers]) if False else None
    # second pass for deadlines/registration: ids are allocated at creators' clock reads, in order
    nid = 0
    cur = {}
    for ln in lines:
        ws = ln.split()
        if ws[0] == "call":
            cur[ws[1]] = {"secs": int(ws[3])}
        elif ws[0] == "step" and ws[2] == "clock" and ws[1] != "0":
            c = cur.get(ws[1])
            if c is not None:
                c["id"] = nid
                c["deadline"] = int(ws[3]) + c["secs"]
                c["clock"] = int(ws[3])
                rec = timers.setdefault(nid, [None, None, None, False])
                rec[0] = c["deadline"]
                nid += 1
        elif ws[0] == "step" and ws[2] == "cEnabled" and ws[1] != "0":
            c = cur.get(ws[1])
            if c is not None and "id" in c and ws[3] == "True":
                timers[c["id"]][1] = c["clock"]
    return lines, {"timers": {i: tuple(v) for i, v in timers.items() if v[0] is not None}, "stopped": stopped}
