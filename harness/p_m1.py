"""C01 / C02 plugin: M1 lock-step correspondence + monitors on the real Signal."""
import hashlib
import json
import os
import random

from . import detsched as ds
from . import lean_audit
from . import plug

RULE = {
    "C01": "scenario = 1-6 threads x 1-3 ops of {wait,go,bool,then,remove_then} on one real Signal/Never; schedule = seeded "
           "random / PCT / sticky walk over single shared accesses; a run is non-trivial when at least one context switch "
           "happens while the pre-empted thread is inside a Signal method; distinct = distinct (scenario shape, schedule) hash",
}
RULE["C01"] += ("; callbacks are removed by an equal, not identical callable every other time; plus monitor-only jobs: HOSTILE programs "
                "(callbacks that raise, handlers that raise again, callbacks calling then/go/bool/remove_then on their own signal, "
                "wait(till=x) for x a signal / False / None / Null) and LINE MODE (every line of the library's functions a pre-emption point)")
RULE["C02"] = RULE["C01"] + "; C02 profile biases towards then/remove_then and raising callbacks"


def trusted_base(prop):
    return [
        "Lean 4.33 kernel; axioms of every theorem audited to be within {propext, Classical.choice, Quot.sound}",
        "statements in lean/MoThreads/Props/%s.lean" % prop,
        "hand-written model lean/MoThreads/Model/SignalCore.lean, tied to /repo/mo_threads/signals.py by lock-step replay of "
        "real executions (harness/detsched.py, harness/m1_signal.py, lean/Driver.lean): every shared read/write, lock "
        "operation, callback and the scheduler's enabled set must agree step by step",
        "modelled, not verified: CPython atomicity of one attribute access and of list.append/del, `with` semantics, _thread.lock",
    ]


def assumptions(prop):
    return [
        "callbacks terminate and do not call back into the signal being triggered",
        "exceptions raised by callbacks derive from Exception",
        "correspondence covers only explored scenarios/schedules; the theorems cover all",
    ]


def _mk_chooser(kind, seed, est):
    if kind == "pct":
        return ds.pct_chooser(seed, depth=1 + seed % 3, est_steps=max(est, 20))
    if kind == "sticky":
        return ds.sticky_chooser(seed, switch_prob=0.15 + (seed % 5) * 0.1)
    return None


def make_jobs(prop, tier, seed):
    jobs = []
    corpus = load_corpus(prop)
    if corpus:
        jobs.append({"kind": "corpus", "prop": prop, "items": corpus})
    n_jobs = 16 if tier == "quick" else 96
    per = 10 if tier == "quick" else 16
    for j in range(n_jobs):
        jobs.append({"kind": "explore", "prop": prop, "seed": seed * 1000003 + j, "scenarios": per, "schedules": 8})
    if tier == "thorough":
        for j in range(16):
            jobs.append({"kind": "dfs", "prop": prop, "seed": seed * 7919 + j, "budget": 1500})
        for j in range(32):
            jobs.append({"kind": "pbound", "prop": prop, "seed": seed * 104729 + j, "k": 2, "budget": 2500})
    else:
        jobs.append({"kind": "pbound", "prop": prop, "seed": seed * 104729, "k": 1, "budget": 300})
    # hostile programs (raising callbacks and handlers, re-entrant callbacks, wait(till=...) of every kind): monitors only
    for j in range(3 if tier == "quick" else 16):
        jobs.append({"kind": "explore", "hostile": True, "no_driver": True, "prop": prop, "seed": seed * 4256233 + j, "scenarios": 80, "schedules": 4})
    jobs.extend(plug.line_jobs(prop, tier, seed, scenarios=8, schedules=6))
    return jobs


def search_jobs(prop, tier, seed, corr_fail):
    """after a broken proof/correspondence: look harder for a monitor violation on the implementation"""
    jobs = []
    for f in corr_fail[:8]:
        rp = f.get("replay") or {}
        if rp.get("scenario"):
            jobs.append({"kind": "around", "prop": prop, "scenario": rp["scenario"], "seed": seed + len(jobs), "schedules": 300})
    n = 32 if tier == "quick" else 96
    for j in range(n):
        jobs.append({"kind": "explore", "prop": prop, "seed": 555000 + seed * 1000003 + j, "scenarios": 12, "schedules": 12,
                     "no_driver": True})
    return jobs


def load_corpus(prop):
    d = os.path.join(lean_audit.VERIF, "corpus", "m1")
    out = []
    if os.path.isdir(d):
        for f in sorted(os.listdir(d)):
            if f.endswith(".json"):
                out.append(json.load(open(os.path.join(d, f))))
    return out


def _relevant(prop, msgs):
    return [m for m in msgs if m.startswith(prop + ":") or m.startswith("unexpected")]


def _run_batch(prop, items, use_driver=True):
    """items: list of (scenario, chooser_kind, chooser_seed, choices or None)"""
    from . import m1_signal as m1
    res = {"evaluations": 0, "transitions": 0, "context_switches": 0, "traces_validated": 0, "shapes": {},
           "distinct": [], "corr_fail": [], "mon_fail": [], "samples": [], "extra": {}}
    text = []
    meta = []
    for idx, item in enumerate(items):
        sc, ck, cs, choices = item[:4]
        if len(item) > 4:
            r = item[4]
        else:
            chooser = ds.replay_chooser(choices) if choices is not None else _mk_chooser(ck, cs, 40 * len(sc["threads"]))
            r = m1.run_hostile(sc, chooser=chooser, seed=cs) if sc.get("hostile") else m1.run_scenario(sc, chooser=chooser, seed=cs)
        res["evaluations"] += 1
        res["transitions"] += r["steps"]
        res["context_switches"] += r["switches"]
        sh = m1.shape_hostile(sc) if sc.get("hostile") else m1.shape(sc)
        res["shapes"][sh] = res["shapes"].get(sh, 0) + 1
        res["extra"]["outcome_" + r["outcome"]] = res["extra"].get("outcome_" + r["outcome"], 0) + 1
        if r["switches"] > 0:
            res["distinct"].append(hashlib.sha1((sh + json.dumps(sc["raises"]) + json.dumps(r["choices"])).encode()).hexdigest()[:16])
        rp = {"model": "m1", "scenario": sc, "choices": r["choices"]}
        if ds.LINE_MODE:
            rp["lines"] = True
        mons = _relevant(prop, r["monitor"])
        if mons:
            res["mon_fail"].append({"msg": mons[0], "all": mons, "replay": rp, "signature": None})
        if r["outcome"] == "hung":
            res.setdefault("infra", []).append("hung run")
        if sc.get("hostile"):
            meta.append((sc, r))
            continue            # no trace for the model: monitors only
        text.append("run %d m1 never=%d raises=%s" % (idx, 1 if sc["never"] else 0, ",".join(str(k) for k in sc["raises"])))
        text.extend(r["lines"])
        for ln in r["lines"]:
            if not ln.startswith("enabled"):
                kk = "kind:" + plug.line_kind(ln)
                res["extra"][kk] = res["extra"].get(kk, 0) + 1
        meta.append((sc, r))
        if len(res["samples"]) < 2 and r["switches"] > 2:
            res["samples"].append({"scenario": sc, "schedule_prefix": r["choices"][:40], "outcome": r["outcome"],
                                   "trace_head": r["lines"][:14]})
    if use_driver and text:
        out = lean_audit.run_driver("\n".join(text) + "\n")
        seen = set()
        for line in out:
            ws = line.split(" ", 3)
            if ws[0] == "ok":
                res["traces_validated"] += 1
                seen.add(int(ws[1]))
            elif ws[0] == "FAIL":
                i = int(ws[1])
                seen.add(i)
                sc, r = meta[i]
                ln = int(ws[2].split("=")[1])
                res["corr_fail"].append({"msg": "M1 lock-step: " + (ws[3] if len(ws) > 3 else ""), "mode": "LS (lock-step differential) M1/SignalCore",
                                         "replay": {"model": "m1", "scenario": sc, "choices": r["choices"],
                                                    "diverges_at_line": ln, "trace_tail": r["lines"][max(0, ln - 6):ln + 1]}})
        for i in range(len(meta)):
            if i not in seen:
                sc, r = meta[i]
                res["corr_fail"].append({"msg": "M1 lock-step: driver produced no verdict", "mode": "LS",
                                         "replay": {"model": "m1", "scenario": sc, "choices": r["choices"]}})
    return res


class _M1(object):
    """adapter for plug.pbound_job"""
    name = "m1"
    mode = "LS"

    def run(self, sc, chooser, seed):
        from . import m1_signal as m1
        return m1.run_scenario(sc, chooser=chooser, seed=seed)


def _pbound(prop, job):
    """all schedules of a small scenario with at most k deviations from the non-pre-emptive schedule"""
    from . import m1_signal as m1
    rng = random.Random(job["seed"])
    sc = m1.gen_scenario(rng, max_threads=3, max_ops=2, profile=([1, 2, 1, 4, 2, 1] if prop == "C02" else None))
    sc["never"] = False
    k, budget = job.get("k", 2), job.get("budget", 2500)
    items, stack, exhausted, per_level = [], [({}, 0)], True, {}
    while stack:
        if len(items) >= budget:
            exhausted = False
            break
        devs, start = stack.pop()
        r = m1.run_scenario(sc, chooser=ds.deviation_chooser(devs))
        items.append((sc, None, 0, list(r["choices"]), r))
        per_level[len(devs)] = per_level.get(len(devs), 0) + 1
        if len(devs) < k:
            counts, ch = r["cand_counts"], r["choices"]
            for i in range(min(len(ch), len(counts)) - 1, start - 1, -1):
                for alt in range(counts[i]):
                    if alt != ch[i] % max(counts[i], 1):
                        d2 = dict(devs)
                        d2[i] = alt
                        stack.append((d2, i + 1))
    res = _run_batch(prop, items)
    res["extra"]["pbound_scenarios"] = 1
    res["extra"]["pbound_runs"] = len(items)
    res["extra"]["pbound_exhausted_k%d" % k] = 1 if exhausted else 0
    for lv, n in per_level.items():
        res["extra"]["pbound_runs_with_%d_deviations" % lv] = n
    return res


def run_job(job):
    old = ds.LINE_MODE
    ds.LINE_MODE = plug.wants_lines(job)
    try:
        return _run_job(job)
    finally:
        ds.LINE_MODE = old


def _run_job(job):
    from . import m1_signal as m1
    prop = job["prop"]
    kind = job["kind"]
    if kind == "pbound":
        return _pbound(prop, job)
    if kind == "replay":
        rp = job["replay"].get("replay") or job["replay"].get("first_divergence") or job["replay"]
        res = _run_batch(prop, [(rp["scenario"], None, 0, rp["choices"])])
        bad = res["mon_fail"] or res["corr_fail"]
        return {"violated": bool(res["mon_fail"]), "message": (bad[0]["msg"] if bad else "no monitor fired; model accepts the trace")
                + ("" if res["mon_fail"] or not res["corr_fail"] else " [correspondence still diverges]")}
    if kind == "shrink":
        return {"failure": shrink(prop, job["failure"])}
    if kind == "corpus":
        items = [(it["scenario"], None, 0, it["choices"]) for it in job["items"]]
        return _run_batch(prop, items)
    if kind == "around":
        rng = random.Random(job["seed"])
        items = [(job["scenario"], rng.choice(["rand", "pct", "sticky"]), rng.randrange(1 << 30), None) for _ in range(job["schedules"])]
        return _run_batch(prop, items, use_driver=False)
    if kind == "dfs":
        return _dfs(prop, job)
    rng = random.Random(job["seed"])
    profile = None
    if prop == "C02" and rng.random() < 0.7:
        profile = [1, 2, 1, 4, 2, 1]
    if prop == "C20":
        profile = [8, 1, 1, 0, 0, 0]      # several threads waiting on one signal, rarely a go()
    items = []
    for _ in range(job["scenarios"]):
        sc = m1.gen_hostile(rng) if job.get("hostile") else m1.gen_scenario(rng, profile=profile)
        for j in range(job["schedules"]):
            items.append((sc, ["rand", "pct", "sticky", "rand"][j % 4], rng.randrange(1 << 30), None))
    return _run_batch(prop, items, use_driver=not job.get("no_driver"))


def _dfs(prop, job):
    """exhaustive enumeration of ALL schedules of small scenarios (2 threads, <=2 short ops), budgeted"""
    from . import m1_signal as m1
    rng = random.Random(job["seed"])
    small_ops = ["wait", "go", "bool", "then", "remove_own"]
    sc = {"never": False, "threads": [[rng.choice(small_ops)], [rng.choice(["go", "then", "wait"])]], "raises": []}
    if rng.random() < 0.5:
        sc["threads"].append(["go"])
    items = []
    prefix = []
    n = 0
    exhausted = False
    res_all = None
    while n < job["budget"]:
        # run with the current prefix, then leftmost choices
        r = m1.run_scenario(sc, chooser=ds.replay_chooser(prefix))
        # we need cand counts: re-run is avoided by reading them from a scheduler-less copy: use choices + a second pass
        items.append((sc, None, 0, list(r["choices"])))
        n += 1
        counts = r.get("cand_counts")
        if counts is None:
            break
        # backtrack
        ch = list(r["choices"])
        i = len(ch) - 1
        while i >= 0 and ch[i] + 1 >= counts[i]:
            i -= 1
        if i < 0:
            exhausted = True
            break
        prefix = ch[:i] + [ch[i] + 1]
    res = _run_batch(prop, items)
    res["extra"]["dfs_runs"] = n
    res["extra"]["dfs_exhausted"] = 1 if exhausted else 0
    return res


def shrink(prop, failure):
    """delta-debug the schedule (drop choices -> default 0) then the scenario (drop ops)"""
    from . import m1_signal as m1
    rp = failure["replay"]
    sc = rp["scenario"]
    if sc.get("hostile") or rp.get("lines"):
        return failure          # kept as found
    choices = list(rp["choices"])

    def fails(sc, choices):
        r = m1.run_scenario(sc, chooser=ds.replay_chooser(choices))
        return bool(_relevant(prop, r["monitor"])), r

    ok, r = fails(sc, choices)
    if not ok:
        return failure
    # drop trailing ops / threads
    improved = True
    while improved:
        improved = False
        for ti in range(len(sc["threads"])):
            for oi in range(len(sc["threads"][ti])):
                cand = {"never": sc["never"], "raises": sc["raises"],
                        "threads": [list(t) for t in sc["threads"]]}
                del cand["threads"][ti][oi]
                cand["threads"] = [t for t in cand["threads"] if t]
                if not cand["threads"]:
                    continue
                for attempt in range(30):
                    ch = None if attempt else choices
                    r2 = m1.run_scenario(cand, chooser=(ds.replay_chooser(ch) if ch else None), seed=attempt)
                    if _relevant(prop, r2["monitor"]):
                        sc, choices, r = cand, r2["choices"], r2
                        improved = True
                        break
                if improved:
                    break
            if improved:
                break
    out = dict(failure)
    out["replay"] = {"model": "m1", "scenario": sc, "choices": choices}
    out["msg"] = _relevant(prop, r["monitor"])[0]
    return out
