"""
C18, the shell pool under concurrency: the REAL LifetimeManager.get_or_create_process / return_process with stub shells,
called from 2-4 threads under the deterministic scheduler.  Monitor: a shell is never handed to a second Command while
the first still holds it, and the manager's lists never list a shell twice.
Run as a separate process (the scheduler patches mo_threads):   python -m harness.m9_pool <seed> <n>
"""
import json
import random
import sys

from . import detsched as ds

MARKER = "END-OF-COMMAND-MARKER"


def run_one(sc, seed):
    ds.install()
    ds.reset_globals()
    import mo_threads
    from mo_threads import commands, Queue, Signal
    sched = ds.Sched(seed=seed, max_steps=20000, horizon=2.0)
    ds.start_timers(sched)
    viol = []
    holders = {}

    class StubProcess(object):
        counter = [0]

        def __init__(self, name, params, cwd=None, env=None, debug=False, shell=False, bufsize=-1, timeout=2.0, startup_timeout=10.0, parent_thread=None):
            self.pid_ = StubProcess.counter[0]
            StubProcess.counter[0] += 1
            self.name = "stub%d" % self.pid_
            self.stopped = Signal()
            self.stdin = Queue("in", silent=True)
            self.stdout = Queue("out", silent=True)
            self.stderr = Queue("err", silent=True)
            self.stdout.add(commands.END_OF_COMMAND_MARKER)
            self.stdout.add("0")
            self.timeout = timeout

            class St(object):
                last_read = 0
            self.stdout_status = St()
            self.kill_once = lambda: None

        def join(self, *a, **k):
            return self

    orig_process = commands.Process
    commands.Process = StubProcess
    mgr = commands.LifetimeManager.__new__(commands.LifetimeManager)
    mgr.locker = mo_threads.Lock()
    mgr.avail_processes = []
    mgr.inuse_processes = []
    mgr.wakeup = Signal()
    mgr.worker_thread = None

    def body(ti, ops):
        def run():
            for k, hold in ops:
                p = mgr.get_or_create_process(params=["x"], bufsize=-1, cwd="/k%d" % k, debug=False, env={}, name="n", shell=True, timeout=5)
                if p.pid_ in holders:
                    viol.append("C18: shell %d was handed to thread %d while thread %d still uses it (two Commands share one shell)"
                                % (p.pid_, ti, holders[p.pid_]))
                holders[p.pid_] = ti
                for _ in range(hold):
                    sched.yield_point(("use", p.pid_))
                if holders.get(p.pid_) == ti:
                    del holders[p.pid_]
                mgr.return_process(p)
                ids = [proc.pid_ for _, proc, _ in mgr.avail_processes + mgr.inuse_processes]
                if len(ids) != len(set(ids)):
                    viol.append("C18: a shell is listed twice in the manager: %s" % ids)
        return run
    try:
        for ti, ops in enumerate(sc["threads"]):
            sched.spawn("t%d" % ti, body(ti, ops))
        outcome = sched.run()
    finally:
        commands.Process = orig_process
    if outcome != "done":
        viol.append("C18: pool scenario ended %s" % outcome)
    for vt in sched.vts:
        if vt.exc is not None:
            viol.append("C18: unexpected exception in %s: %r" % (vt.name, vt.exc))
    return viol, sched.steps, sched.context_switches, list(sched.choices)


def gen(rng):
    return {"threads": [[(rng.randint(0, 1), rng.randint(0, 2)) for _ in range(rng.randint(1, 3))] for _ in range(rng.randint(2, 4))]}


def main(seed, n):
    rng = random.Random(seed)
    out = {"cases": 0, "viol": [], "steps": 0, "switches": 0}
    for i in range(n):
        sc = gen(rng)
        for j in range(4):
            v, steps, sw, choices = run_one(sc, seed * 1000 + i * 10 + j)
            out["cases"] += 1
            out["steps"] += steps
            out["switches"] += sw
            for m in v:
                if len(out["viol"]) < 5:
                    out["viol"].append({"msg": m, "scenario": sc, "run_seed": seed * 1000 + i * 10 + j})
    print("M9POOL " + json.dumps(out))


if __name__ == "__main__":
    main(int(sys.argv[1]), int(sys.argv[2]))
