"""writes /verif/MANIFEST.json from the table below (kept in one place so it stays valid)"""
import json
import os

VERIF = os.path.dirname(os.path.dirname(os.path.abspath(__file__)))

CLAIMED = {
    "C01": dict(
        text="Lean 4 theorems over every reachable state of a shared-access-granularity model of Signal.wait/go/bool/then/"
             "remove_then (any number of threads, any interleaving): no early release, monotone flag, unique publishing go(), "
             "no lost wake-up, no deadlock (quiescent & flag true => every call returned), termination (C01_runs_terminate, "
             "C01_every_wait_returns: explicit rank, every step decreases it), Never. The model is tied to "
             "mo_threads/signals.py by lock-step replay of real executions under a deterministic scheduler.",
        design="§5 C01", technique="Lean 4 inductive invariant (27 fields, 45 step cases) + lock-step differential against the real code",
        note="Trusted: Lean kernel, axioms {propext, Classical.choice, Quot.sound}; hand-written model + lock-step correspondence "
             "harness; CPython atomicity of single attribute accesses / list ops, `with`, _thread.lock are modelled not verified. "
             "L1 (no bad quiescent state) and L2 (explicit ranking function: every run without new calls takes at most rank steps, "
             "under any scheduler) are theorems."),
    "C02": dict(
        text="Lean 4 theorems over the same model with ghost run counters per registration: at most once, only when the flag is "
             "true (also at the very step), exactly once at quiescence unless removed before the trigger, removed never runs, "
             "raising callbacks isolated (handler exactly once), waiters released before callbacks; every run ends within the rank "
             "bound with every surviving registration run exactly once (C02_every_callback_runs); for every `raises` set.",
        design="§5 C02", technique="Lean 4 inductive invariant with ghost location per registration + lock-step differential",
        note="Same trusted base as C01. Each then() registration is a distinct target; remove_then removes the first equal entry."),
}

CLAIMED["C05"] = dict(
    text="Lean 4 theorems over every reachable state of a model of Lock.__enter__/__exit__/wait at the granularity of every access "
         "to Lock.lock and Lock.waiting (any number of threads, arbitrary monitor programs, timeouts fired by the environment at any "
         "point): at most one thread inside; a parked thread is outside; wait() returns only through the re-acquire step, which needs "
         "the mutex free, on the signalled, timed-out and both paths; __exit__ (also on exceptions) never blocks and releases.",
    design="§5 C05", technique="Lean 4 inductive invariant (22 fields, 13 step cases + calls) + trace acceptance of real Lock executions",
    note="Trusted: Lean kernel + standard axioms; hand-written model Monitor.lean tied to lock.py by trace acceptance under the "
         "deterministic scheduler (real Signal/OrSignal underneath); waiter.go()/both.wait() atomic in the model (justified by C01, "
         "not proved as a refinement); `with` calls __exit__ on exceptions (Python semantics, modelled).")
CLAIMED["C06"] = dict(
    text="Lean 4 theorems on the same model, generic in the guarded state and in the waiters' declared conditions: every release "
         "signals the oldest waiter if there is one (or the releasing waiter is alone with a false condition); signals are not lost; "
         "the waiting list holds exactly the registered, not yet returned waiters (no ghosts, no duplicates); wait() returns False "
         "only if its till fired; L1: in every quiescent state with the lock free every parked waiter's condition is false; "
         "C06_runs_terminate/C06_waiters_resume: each Lock operation is a bounded number of own steps, so without new calls "
         "every schedule reaches such a state within an explicit rank.",
    design="§5 C06", technique="Lean 4 inductive invariant with baton ghosts (hot list, hand) + trace acceptance + trace-level baton monitor",
    note="Same trusted base as C05. Liveness is 'no bad quiescent state' (L1) plus termination of the operations in progress "
         "(rank); across the calls of a `while not cond: lock.wait()` loop bounded progress does not hold for the unchanged code "
         "when >=2 threads re-wait (the C20 finding), so termination of whole monitor loops is L1 plus fairness.")
CLAIMED["C20"] = dict(
    text="PARTIAL: proved — a thread parked in Signal.wait() (flag false), Lock.wait() (not signalled, not timed out) or Queue.pop()/"
         "add() (not signalled, not closed, no till / no stall timer of this wait fired; silent and non-silent queues) is disabled; "
         "waiter signals are fired only by a release; a single Lock waiter leaves the system quiescent. Disproved for the unchanged "
         "code — two or more re-waiting threads on one Lock wake each other forever (Lean witness + replay on the real code): open "
         "known finding C20/two-or-more-waiters-on-one-lock, printed as KNOWN-FINDING. Any other busy-wait (single waiter spinning, "
         "Signal.wait polling with a timed acquire, a producer re-waiting on an expired timer) is reported as a VIOLATION.",
    design="§5 C20, §7", technique="Lean 4 theorems + decide-checked negation witness; livelock and timed-acquire monitors on real Lock and Queue runs under the scheduler",
    note="Same trusted base as C01/C05. The full property is false on the unchanged tree; no small safe repair exists within the "
         "implicit-notify API (DESIGN §7), so it is a recorded finding, not a fix.")

CLAIMED["C07"] = dict(
    text="Lean 4 theorems over every reachable state of a model of Queue.add/push/extend/pop/pop_one/pop_all/len/close at the "
         "granularity of mutex operations, every test of closed/till/len and every deque mutation, with arbitrary wake-ups: mutations "
         "happen one at a time inside their call; without front pushes initial++appended = removed++contents (exact FIFO, nothing "
         "lost or duplicated); with pushes every value's multiplicity is conserved; every popleft returns the head; pop(till) "
         "returns None only on the timed-out path after its till fired and that path changes nothing; L2 (C07_operations_terminate): "
         "without new calls and environment events the threads inside Queue methods take at most an explicit rank of steps - each "
         "turn of the capacity / empty loop consumes what woke the thread (silent and non-silent queues).",
    design="§5 C07", technique="Lean 4 inductive invariant (FIFO refinement ghosts) + trace acceptance of real Queue executions + independent FIFO replay monitor",
    note="Trusted: Lean kernel + standard axioms; model Queue.lean tied to queues.py by trace acceptance under the deterministic "
         "scheduler with the real Lock/Signal/OrSignal/Till underneath; the Lock's baton is an arbitrary environment move in the model "
         "(no-loss liveness is C06). deque ops, `with`, logger.error raising are modelled, not verified. non-unique queues, both modes.")
CLAIMED["C08"] = dict(
    text="Lean 4 theorems on the same model for every max, any number of producers/consumers, silent and non-silent queues: a non-forced add() appends only "
         "with the queue closed or below max (so an open queue never exceeds max through add); a producer finding the open queue "
         "full tests its give-up signal, raises with contents unchanged if it fired, parks otherwise; a woken producer re-tests "
         "everything (after the 'queue is full' alert test when not silent); a parked producer is enabled exactly by a signal, its own "
         "till (silent) or the stall timer of THIS wait (not silent, every wait gets a fresh one), with the mutex free. The check also found "
         "and the tree now fixes the `till or Till()` defect (caller's till ignored).",
    design="§5 C08", technique="Lean 4 invariant + trace acceptance + capacity/back-pressure monitors on real runs",
    note="Same trusted base as C07. 'Not stranded when consumers keep popping' is the C06 L1 theorem on the Lock model plus the "
         "enabledness theorem here; the composition is argued, not proved, in Lean.")
CLAIMED["C09"] = dict(
    text="Lean 4 theorems on the same model: closed is permanent; after close a pop still drains head-first and then gets the stop "
         "marker; consumers already parked (or that had tested closed before close() ran) are enabled once closed and end with the "
         "stop marker; L1: no consumer is parked in any quiescent state of a closed queue, and L2 (C09_pending_pops_return): that state is "
         "reached within an explicit rank of steps; non-forced add/push/extend on a closed queue raise without enqueueing; a stop marker "
         "inside an extend() batch closes the queue at its place in the batch.",
    design="§5 C09", technique="Lean 4 invariant + L1 quiescence theorem + trace acceptance + close monitors on real runs",
    note="Same trusted base as C07.")

CLAIMED["C13"] = dict(
    text="Lean 4 theorems over every reachable state of a model of till.daemon and Till() (Int clock, INTERVAL > 0 a parameter, "
         "any number of creators, locked sections split into acquire/body/release, the unlocked next_ping read-modify-write split "
         "in two): the polling loop never fires a timer before its deadline; scans are at most one interval apart; while the daemon "
         "runs an unfired registered Till implies clock <= max(deadline, registration) + INTERVAL; non-positive seconds yield the "
         "always-true signal; Till(till=absolute) is always registered, also with a deadline in the past; L2 (C13_daemon_settles, "
         "Props/TillLive.lean): the daemon does not spin - with no new Till and no passing of time every schedule takes at most an "
         "explicit rank of steps and ends with every creation complete and the daemon asleep (wake-up time ahead) or done.",
    design="§5 C13", technique="Lean 4 inductive invariant (32 fields, Int arithmetic by omega, sort/split list lemmas) + trace acceptance of the real daemon on a virtual clock",
    note="Trusted: Lean kernel + standard axioms; model Till.lean tied to till.py by trace acceptance under the deterministic scheduler "
         "(thread-local steps taken eagerly); idle-system clock discipline (time passes only while the daemon sleeps and no creation "
         "is in progress) is an assumption of the property; list.sort, weakrefs, float arithmetic modelled (dyadic interval in runs).")
CLAIMED["C14"] = dict(
    text="Lean 4 theorems on the same model (of the REPAIRED Till.__init__): when the daemon has finished its shutdown and no "
         "creation is in progress every Till ever created is true; creators can always finish; L1: no Till is untriggered in any "
         "quiescent state after daemon end; a Till requested after disable is the always-true signal; a creation caught mid-way "
         "fires itself; L2 (C14_shutdown_completes): once a stop is requested and the daemon is at its loop test (or its sleep is "
         "over) every schedule ends, within the rank bound, with the daemon done and every Till ever created true. "
         "The pinned tree violated this (stranded creation during the final drain): fixed in /repo, replay in corpus.",
    design="§5 C14, §7", technique="Lean 4 inductive invariant + L1 quiescence theorem + trace acceptance with shutdown at every step of creation",
    note="Same trusted base as C13. The two generations of the `enabled` signal (stale object reads) are modelled explicitly.")

CLAIMED["C10"] = dict(
    text="Lean 4 theorems over every reachable state of a model of Thread._run/stop/join/join_all_threads/MainThread.stop on a "
         "dynamic forest (recursion flattened into work lists; repaired join and shutdown block): `stopped` is triggered only by "
         "the last step of the shutdown block; when a thread is stopped every thread ever registered as its child has stopped, "
         "and transitively every descendant; a child is unregistered only after it stopped; the shutdown block blocks only while "
         "waiting for a child that has not stopped. L2 (Props/TreeLive.lean): with no new API calls every schedule takes at most an "
         "explicit rank of steps (C10_runs_terminate: a thread id is worth 2^(N-id), distinct children weigh less than their parent), "
         "and in a run that cannot be extended a thread whose target has ended HAS triggered `stopped` unless the target of one of "
         "its registered descendants is still running (C10_stopped_once_all_done). The pinned tree violated it (failed grandchild): fixed in /repo, replay in corpus.",
    design="§5 C10, §7", technique="Lean 4 inductive invariant (work-list coverage + guarded unregistration) + trace acceptance of real thread trees under the scheduler",
    note="Trusted: Lean kernel + standard axioms; model ThreadTree.lean tied to threads.py by trace acceptance (thread-local steps "
         "skipped lazily/eagerly); flattening of the stop()/join() recursion is exact only because neither exits early (argued, "
         "checked on traces); try/finally and exception propagation are modelled; children are created by their parent's own target.")
CLAIMED["C11"] = dict(
    text="Lean 4 theorems over every reachable state of the thread-tree model (any tree, any interleaving). stop() never blocks; "
         "CLOSURE (C11_stop_reaches_every_descendant / C11_stop_returned): when stop(p) returns, every thread that was p or a "
         "registered descendant of p (any number of generations) when the call started has please_stop set or has already stopped, "
         "although the tree changes while stop() walks it (threads ending, children joined and unregistered, new children "
         "registering) - proved by an invariant that keeps every target covered by the remaining work list; please_stop is "
         "permanent; an unstopped thread is still listed under its parent (repaired shutdown block); MainThread.stop() ends its join "
         "phase only when every child of main and, by C10, every registered descendant has stopped, and reports failures after "
         "having joined all; LEAVES NOTHING BEHIND: threads are children of their creator or orphans (parent_thread=Null, registered "
         "in ALL only); the step that removes the main thread from ALL snapshots the whole registry (C11_sweep_snapshot_is_the_registry) "
         "and every thread of that snapshot, like every descendant of the main thread, has stopped and left ALL when the sweep's join is "
         "over (C11_main_stop_leaves_nothing_registered); failures are raised only after the sweep; L2: "
         "stop() returns within the rank bound under any scheduler (C11_stop_returns). The pinned tree violated the property (stop racing a shutdown block that had detached its children): fixed.",
    design="§5 C11, §7", technique="Lean 4 inductive invariants (work-list coverage of stop(), frame lemmas for every move) + trace acceptance + C11 monitor under gated-stop schedules",
    note="Same trusted base as C10. 'Registered' is the ghost list of all threads ever registered under a parent; the flattened "
         "work list of stop() is exact because the recursion never exits early.")

CLAIMED["C12"] = dict(
    text="Lean 4 theorems on the same model: the outcome is stored before `stopped` and never changes; join(u) returning a value "
         "means u stopped and the value is exactly what the target returned; a timeout is reported only if the till fired and u has "
         "not stopped, any other result means u stopped; a failed target is never reported as a return; join_all_threads waits for "
         "every listed thread, returns results in input order and raises iff some join raised; the sixty seconds an unjoined thread waits "
         "for a joiner are modelled (it then logs, or takes itself out of its parent's list) and leave the outcome where it was "
         "(C12_expiry_keeps_the_outcome), so a join() minutes later reports it all the same; L2: runs are finite (rank) and a "
         "join is blocked on one thing only, a thread that has not stopped while the timeout has not fired "
         "(C12_join_blocks_only_on_unstopped).",
    design="§5 C12", technique="Lean 4 inductive invariant on join work lists + trace acceptance + value/cause-chain monitors on real runs",
    note="Same trusted base as C10. Return values are naturals standing for arbitrary values; the exception cause chain is compared "
         "on real runs by the monitor, not in the model.")

CLAIMED["C16"] = dict(
    text="Lean 4 theorems over every reachable state of a model of ThreadedQueue.worker_bee (repaired), for every batch size, producer "
         "timing, timer firing and finite failure pattern of the slow queue: accepted batches ++ buffer ++ item in hand ++ queued "
         "values is always exactly the sequence added (ordered, loss-free, exactly once); a failed extend changes nothing, an "
         "accepted batch is the buffer; exactly one stop marker, sent last; no crash without an external abort; L1: once the stop "
         "marker is queued the worker can only come to rest at its end, so stop() returns; L2 (C16_worker_runs_terminate, "
         "C16_stop_returns_in_bounded_steps): an explicit rank (queued items, remaining failure pattern, fired state of the flush "
         "timer) decreases at every step, so it gets there within that many steps. The pinned tree hung when the final "
         "flush failed: fixed in /repo, replay in corpus.",
    design="§5 C16, §7", technique="Lean 4 inductive invariant + L1 quiescence theorem + trace acceptance of the real worker with a scripted failing sink",
    note="Trusted: Lean kernel + standard axioms; model TQWorker.lean tied to worker_bee by trace acceptance; a failed extend() "
         "delivers nothing (assumption on the sink); the L2 theorem assumes that timers which do not exist yet have not fired "
         "(`Fresh`), which holds for every state the environment of the real code can produce.")

CLAIMED["C18"] = dict(
    text="PARTIAL (protocol logic proved, bash/OS sampled). Lean 4 theorems: the shell's word splitting of the line built by "
         "cmd_escape returns exactly the parameter list for EVERY list of strings (C18_quote_roundtrip, by induction over the exact "
         "shlex.quote algorithm and the POSIX quoting rules it relies on); framing: a Command relays exactly its own lines and reads "
         "its own status whatever follows on the recycled shell, for every history of reuse; the manager keeps each shell in at most "
         "one of avail/inuse, once, for every get/return history. The Lean functions are compared with the real shlex.quote, real "
         "bash, real concurrent Commands and the real LifetimeManager on every run. returncode defect fixed; two in-band framing "
         "weaknesses are open known findings (with a Lean negation witness).",
    design="§5 C18, §7", technique="Lean 4 proofs by induction on strings / token streams / op sequences + pure-function differential against shlex, bash and real Commands",
    note="Trusted: Lean kernel + standard axioms; bash, pipes, process scheduling and the Process reader are not modelled; real runs "
         "are wall-clock samples, not schedule-controlled. Parameters without NUL/newline.")

CLAIMED["C19"] = dict(
    text="PARTIAL (proxy protocol proved, worker and JSON codec sampled). Lean 4 theorems over every reachable state of a model of "
         "Python._execute/_watch_stdout (repaired) with any number of calling threads, every interleaving with the reader and the "
         "worker, every result value (null and falsy values are ordinary values), remote errors and log lines: a call that has "
         "returned holds exactly the worker's answer to ITS OWN request (value for out, exception for err); one request in flight; "
         "the reader classifies every line; L1: in a state where nobody can move every caller has returned (no lost wake-up, no "
         "wedged lock); L2 (C19_every_call_returns): callers, reader and worker together take at most an explicit rank of steps. The pinned tree blocked on falsy results, wedged on set(), crossed answers of concurrent callers, could not "
         "pass true/false/null arguments, kept the old value on set(name, None) and lost an answer when a log line landed inside "
         "it: six fix: commits in /repo, replays in corpus. What mo_json does to empty strings, null members and integers beyond "
         "2**53 is an open known finding.",
    design="§5 C19, §7", technique="Lean 4 inductive invariant (phases of the single request slot) + L1 quiescence theorem + trace acceptance of the real proxy with a scripted worker + sampled real worker round trips",
    note="Trusted: Lean kernel + standard axioms; model PyProxy.lean tied to python.py by trace acceptance; the worker's "
         "one-atomic-line-per-request behaviour is an assumption of the model, sampled through the real child process (wall clock); "
         "JSON codecs are not modelled.")

CLAIMED["C17"] = dict(
    text="PARTIAL (reader/monitor/join logic proved, OS behaviour sampled). Lean 4 theorems over every reachable state of a model "
         "of Process._reader/_monitor/join/kill (repaired), for every child script over two streams, every exit status, every "
         "interleaving of child, readers, monitor and caller and every timing of wait() time-outs, idle kills and stop(): at "
         "`stopped` each (not abandoned) queue holds exactly the lines written, once, in order, and is closed, closed only after "
         "the last line; returncode is the exit status; join() returns only after exit, normally only for exit 0 of an unkilled "
         "child and raises iff status != 0 or killed (unless the program called stop()); L1: join() cannot hang; L2 (C17_join_returns): "
         "for a child that ends by itself every schedule takes at most an explicit rank of steps and ends with join() returned. The pinned tree "
         "lost lines (readers stopped at reaping / the other pipe's EOF) and raised TIMEOUT for /bin/true: two fix: commits. "
         "Open known finding: a consumer that does not drain the queue loses lines when the monitor abandons the reader.",
    design="§5 C17, §7", technique="Lean 4 inductive invariant + L1 quiescence theorem + trace acceptance of the real Process over a scripted Popen stub + sampled real children",
    note="Trusted: Lean kernel + standard axioms; model ProcessIO.lean tied to processes.py by trace acceptance; pipes/waitpid/"
         "signals are assumptions of the model (EOF exactly at exit), sampled with real children on the OS scheduler; byte-level "
         "line splitting is checked on real children only.")

CLAIMED["C03"] = dict(
    text="Lean 4 theorems over every reachable state of a heap model of Signal.__or__/or_signal/OrSignal with reference "
         "counting (any number of threads, nested and shared operands, dropping references, triggering, wait(till=), every "
         "interleaving at the granularity of one Signal operation): the operands of a live, untriggered OR composite stay alive "
         "and cannot be collected, its operand list is intact until it is triggered or dies; a composite not triggered directly "
         "is true only if some operand is (at every moment); a true operand's trigger is always on its way to the composite; "
         "EQUIVALENCE (C03_or_iff, C03_or_iff_operands): at every quiescent point a live composite is true exactly when some "
         "operand is, whether the operands were triggered before, during or after it was built; flags are monotone; STRONG REACHABILITY "
         "(C03_composite_owns_its_OrSignal, C03_operands_strongly_reachable): the composite holds its OrSignal through a registered "
         "callback and the OrSignal its operands, so no collector - reference counting or cycle detection - can free the operands "
         "of a composite the program can reach. The constants "
         "(None/True/False/DONE/NEVER) and the release of waiters (C01 on the composite, an ordinary Signal) are checked on the "
         "real operators by monitors and by trace acceptance. L2 (C03_runs_terminate, Props/CompTerm.lean): building expressions and "
         "cascades of go() terminate - an explicit rank over pending actions and the callbacks carried by untriggered signals - so "
         "the quiescent points of the equivalence are reached after finitely many steps of any scheduler.",
    design="§5 C03", technique="Lean 4 inductive invariants (liveness of operands, hook coverage, propagation) over a heap with reference counting + trace acceptance of the real operators under CPython refcounting + monitors",
    note="Trusted: Lean kernel + standard axioms; model Composite.lean tied to signals.py by trace acceptance; then/go/remove_then "
         "atomic (C01/C02 on M1); CPython reference counting and weakref callback order are assumptions; the harness disables the "
         "cyclic collector during scheduled runs and probes cyclic collections in a separate sequential search.")


CLAIMED["C04"] = dict(
    text="Same model (the REPAIRED __and__). Lean 4 theorems for every reachable state: every operand of a live, untriggered AND "
         "composite is alive and not collectable, the AndSignals operand list is intact and the object is referenced from the "
         "composite - the part the pinned tree violated ((a | b) & c never became true because a | b was collected at once; "
         "fixed in /repo); COUNTDOWN (C04_countdown_is_exact): `remaining` always equals the number of operand positions whose "
         "countdown step has not run, each position counts exactly once (a & a counts twice); the composite is true only if all "
         "operands are; EQUIVALENCE (C04_and_iff, C04_and_iff_operands): at every quiescent point a live composite not triggered "
         "directly is true exactly when both operands are; strong reachability as for C03 (C04_operands_strongly_reachable). The countdown step is one model step; the real decrement is explored "
         "at the granularity of every access to `remaining` (fine-mode runs). Constants are checked by monitors. L2 (C04_and_settles): "
         "after at most rank-many steps, where nobody can move and nobody is parked, the equivalence holds.",
    design="§5 C04, §7", technique="Lean 4 inductive invariants (token counting of countdown steps over per-thread pending actions) over a heap with reference counting + trace acceptance + fine-mode countdown runs + monitors",
    note="Same trusted base as C03.")


CLAIMED["C15"] = dict(
    text="Lean 4 theorems over every reachable state of the heap model M2 (any number of threads, nested and shared operands, "
         "dropping references, the reference-count collector with the OrSignal weak-reference callback, triggering operands and "
         "composites, wait(till=), every interleaving at the granularity of one Signal operation, including an operand triggered "
         "while a composite is being wired or is detaching): at every quiescent point a hook of an OrSignal in a signal's callback "
         "list belongs to a composite that is alive, untriggered and built on that signal, with its own cleanup registered; each "
         "hook occurs at most once per OrSignal and operand position (so the hooks on a signal are bounded by the live untriggered "
         "composites built on it); a triggered or dead signal holds no callbacks; also mid-operation every hook is covered by a "
         "cleanup that is still to be registered, registered, queued or removing it, and a queued removal is effective; L2 "
         "(C15_no_leak_once_settled): the cleanup cascade finishes within the rank bound and leaves no hook behind.",
    design="§5 C15", technique="Lean 4 inductive invariant (token counting over per-thread pending actions, ordering of the three registrations of OrSignal.__init__) + trace acceptance with state observation of the real operators under CPython refcounting + monitor",
    note="Trusted: Lean kernel + standard axioms; model Composite.lean tied to signals.py by trace acceptance (every then/go/"
         "remove_then/callback/object death, job-list length of every live signal after each operation); then/go/remove_then "
         "atomic (C01/C02 on M1); CPython reference counting and weak-reference callbacks are assumptions; gc disabled (a cyclic "
         "collection could free objects earlier than the model does, never later).")

PENDING = {}


# what the rounds of seeded changes added to the exploration (DESIGN §9), by model
_EXTRA = {
    ("C01", "C02"): " + monitor-only hostile programs (raising callbacks and handlers, re-entrant callbacks, wait(till) of every kind) + line mode",
    ("C03", "C04", "C15"): " + the M1 exploration as a layer + operand table of | and & + line mode",
    ("C05", "C06", "C20"): " + the M1 exploration as a layer + hostile / debug-mode lock programs + line mode",
    ("C07", "C08", "C09"): " + the M1 and M3 explorations as layers + line mode",
    ("C10", "C11", "C12"): " + line mode (monitors)",
    ("C13", "C14"): " + monitor-only hostile timers (dying daemon, dropped Tills, seconds=inf) + line mode",
    ("C16",): " + values of every kind / post-push functions (monitors) + line mode",
}
for _ids, _t in _EXTRA.items():
    for _i in _ids:
        if _i in CLAIMED and _t not in CLAIMED[_i]["technique"]:
            CLAIMED[_i]["technique"] += _t


def main():
    props = [json.loads(l) for l in open(os.path.join(VERIF, "properties.jsonl"))]
    checks = []
    na = []
    for p in props:
        pid = p["id"]
        if pid in CLAIMED:
            c = CLAIMED[pid]
            checks.append({
                "property_id": pid,
                "quick_cmd": "./check %s --tier quick" % pid,
                "thorough_cmd": "./check %s --tier thorough" % pid,
                "evidence_file": "evidence/%s.json" % pid,
                "replay_cmd_template": "./check %s --replay {path}" % pid,
                "engine": "lean4+detsched",
                "level_claimed": {"category": "proof", "text": c["text"], "design_ref": c["design"]},
                "level_note": c["note"],
                "technique": c["technique"],
            })
        else:
            na.append({"property_id": pid, "reason": PENDING.get(pid, "not yet built in this round (model and check planned in DESIGN.md §5); no claim is made until the check exists")})
    m = {
        "version": 1,
        "setup_cmd": "cd lean && lake build MoThreads driver",
        "hooks": {
            "guard": "MO_THREADS_VERIF",
            "enable": "no in-source hooks: all instrumentation is monkey-patching from /verif/harness (detsched.install)",
            "baseline_off_cmd": "cd /repo && /venv/bin/python -m pytest -ra -q -p no:cacheprovider --timeout=900 --continue-on-collection-errors",
            "source_commits": [],
            "add_only": True,
        },
        "engines": [
            {"name": "lean4+detsched", "path": "lean/ , harness/",
             "serves_properties": sorted(CLAIMED),
             "kind_free_text": "Lean 4 models + theorems (lean/MoThreads), line-protocol driver (lean/Driver.lean), deterministic "
                               "scheduler around the real mo_threads code (harness/detsched.py), per-property plugins"},
        ],
        "checks": checks,
        "not_applicable": na,
        "notes": "See DESIGN.md. Checks exit 0/1/2 = held / VIOLATION / infrastructure failure.",
    }
    json.dump(m, open(os.path.join(VERIF, "MANIFEST.json"), "w"), indent=1)
    print("MANIFEST.json: %d checks, %d not_applicable" % (len(checks), len(na)))


if __name__ == "__main__":
    main()
