"""writes /verif/MANIFEST.json from the table below (kept in one place so it stays valid)"""
import json
import os

VERIF = os.path.dirname(os.path.dirname(os.path.abspath(__file__)))

CLAIMED = {
    "C01": dict(
        text="Lean 4 theorems over every reachable state of a shared-access-granularity model of Signal.wait/go/bool/then/"
             "remove_then (any number of threads, any interleaving): no early release, monotone flag, unique publishing go(), "
             "no lost wake-up, no deadlock (quiescent & flag true => every call returned), Never. The model is tied to "
             "mo_threads/signals.py by lock-step replay of real executions under a deterministic scheduler.",
        design="§5 C01", technique="Lean 4 inductive invariant (27 fields, 45 step cases) + lock-step differential against the real code",
        note="Trusted: Lean kernel, axioms {propext, Classical.choice, Quot.sound}; hand-written model + lock-step correspondence "
             "harness; CPython atomicity of single attribute accesses / list ops, `with`, _thread.lock are modelled not verified. "
             "Bounded-step progress (L2) is not yet a theorem; L1 (no bad quiescent state) is."),
    "C02": dict(
        text="Lean 4 theorems over the same model with ghost run counters per registration: at most once, only when the flag is "
             "true (also at the very step), exactly once at quiescence unless removed before the trigger, removed never runs, "
             "raising callbacks isolated (handler exactly once), waiters released before callbacks; for every `raises` set.",
        design="§5 C02", technique="Lean 4 inductive invariant with ghost location per registration + lock-step differential",
        note="Same trusted base as C01. Each then() registration is a distinct target; remove_then removes the first equal entry."),
}

PENDING = {}


def main():
    props = [json.loads(l) for l in open(os.path.join(VERIF, "properties.jsonl"))]
    checks = []
    na = []
    for p in props:
        pid = p["id"]
        if pid in CLAIMED:
            c = CLAIMED[pid]
            checks.append({
                "property_id": pid,
                "quick_cmd": "./check %s --tier quick" % pid,
                "thorough_cmd": "./check %s --tier thorough" % pid,
                "evidence_file": "evidence/%s.json" % pid,
                "replay_cmd_template": "./check %s --replay {path}" % pid,
                "engine": "lean4+detsched",
                "level_claimed": {"category": "proof", "text": c["text"], "design_ref": c["design"]},
                "level_note": c["note"],
                "technique": c["technique"],
            })
        else:
            na.append({"property_id": pid, "reason": PENDING.get(pid, "not yet built in this round (model and check planned in DESIGN.md §5); no claim is made until the check exists")})
    m = {
        "version": 1,
        "setup_cmd": "cd lean && lake build MoThreads driver",
        "hooks": {
            "guard": "MO_THREADS_VERIF",
            "enable": "no in-source hooks: all instrumentation is monkey-patching from /verif/harness (detsched.install)",
            "baseline_off_cmd": "cd /repo && /venv/bin/python -m pytest -ra -q -p no:cacheprovider --timeout=900 --continue-on-collection-errors",
            "source_commits": [],
            "add_only": True,
        },
        "engines": [
            {"name": "lean4+detsched", "path": "lean/ , harness/",
             "serves_properties": sorted(CLAIMED),
             "kind_free_text": "Lean 4 models + theorems (lean/MoThreads), line-protocol driver (lean/Driver.lean), deterministic "
                               "scheduler around the real mo_threads code (harness/detsched.py), per-property plugins"},
        ],
        "checks": checks,
        "not_applicable": na,
        "notes": "See DESIGN.md. Checks exit 0/1/2 = held / VIOLATION / infrastructure failure.",
    }
    json.dump(m, open(os.path.join(VERIF, "MANIFEST.json"), "w"), indent=1)
    print("MANIFEST.json: %d checks, %d not_applicable" % (len(checks), len(na)))


if __name__ == "__main__":
    main()
